#!/usr/bin/env python3
"""Create a mutant patch: mkmutant.py <name> <file> <<< "OLD\n====\nNEW"
The patch is a unified diff against /repo's HEAD working tree."""
import difflib, sys, os
name, rel = sys.argv[1], sys.argv[2]
repo = os.environ.get('VERIF_REPO', '/repo')
old, new = sys.stdin.read().split('\n====\n')
new = new.rstrip('\n')
old = old.rstrip('\n')
src = open(os.path.join(repo, rel)).read()
if src.count(old) != 1:
    sys.exit(f'{name}: pattern occurs {src.count(old)} times in {rel}')
dst = src.replace(old, new)
diff = ''.join(difflib.unified_diff(
    src.splitlines(True), dst.splitlines(True), 'a/' + rel, 'b/' + rel))
out = os.path.join(os.path.dirname(os.path.abspath(__file__)), 'mutants', name + '.patch')
open(out, 'w').write(diff)
print('wrote', out)
