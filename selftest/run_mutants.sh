#!/bin/sh
# Sensitivity self-test: apply each mutant to a scratch copy of the repository
# and require the property's quick check to report a VIOLATION.
# usage: run_mutants.sh [PROP|pattern] [extra check args...]
HERE="$(cd "$(dirname "$0")" && pwd)"
VERIF="$(dirname "$HERE")"
PAT="${1:-C}"
shift 2>/dev/null
SCR="/tmp/sc3-mut-$$"
rc=0
for p in "$HERE"/mutants/${PAT}*.patch; do
  [ -f "$p" ] || continue
  name="$(basename "$p" .patch)"
  prop="$(echo "$name" | cut -d- -f1)"
  rm -rf "$SCR"; mkdir -p "$SCR"
  rsync -a --exclude .git --exclude __pycache__ /repo/ "$SCR/"
  if ! (cd "$SCR" && patch -p1 -s < "$p"); then
    echo "MUTANT $name: PATCH-FAILED"; rc=1; continue
  fi
  out="$(VERIF_REPO="$SCR" VERIF_EVIDENCE_DIR="/tmp/sc3-mut-ev-$$" "$VERIF/check" "$prop" --tier quick --no-shrink "$@" 2>&1)"
  code=$?
  if [ $code -eq 1 ] && echo "$out" | grep -q "^VIOLATION property=$prop"; then
    echo "MUTANT $name: CAUGHT ($(echo "$out" | grep -A1 '^VIOLATION' | sed -n 2p | cut -c1-120))"
  else
    echo "MUTANT $name: MISSED (exit $code)"; rc=1
    echo "$out" | tail -3
  fi
done
rm -rf "$SCR" "/tmp/sc3-mut-ev-$$"
exit $rc
