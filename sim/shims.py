"""Module facades for threading / time / socket and their installation into sc3.

No file of /repo is modified: the facades replace the *module attributes*
`threading`, `time`, `socket` of the sc3 modules that use them, before
`sc3.init()` is called in the (forked) child that owns this run.
"""

import random
import time as _real_time
import types
import weakref

from . import kernel as K
from . import net as N


class SimThread:
    """threading.Thread facade."""

    def __init__(self, group=None, target=None, name=None, args=(),
                 kwargs=None, *, daemon=None):
        self._kernel = _CTX['kernel']
        self._target = target
        self._args = args
        self._kwargs = kwargs or {}
        self.name = name or 'Thread'
        self.daemon = bool(daemon)
        self._st = None

    def run(self):
        if self._target is not None:
            self._target(*self._args, **self._kwargs)

    def start(self):
        k = self._kernel
        if self._st is not None:
            raise RuntimeError('threads can only be started once')
        role = _CTX['role_of'](self.name) if _CTX.get('role_of') else None
        self._st = k.spawn(self.name, self.run, role=role,
                           line_preempt=_CTX.get('line_preempt_all', False))
        _CTX['threads'][self._st.idx] = self
        k.yield_point('start')

    def join(self, timeout=None):
        if self._st is None:
            raise RuntimeError('cannot join thread before it is started')
        if self._st is self._kernel.current:
            raise RuntimeError('cannot join current thread')
        K.check_timeout(timeout)
        self._kernel.join(self._st, timeout)

    def is_alive(self):
        return self._st is not None and self._st.state != K.DONE

    @property
    def ident(self):
        return None if self._st is None else 1000 + self._st.idx


class _MainThreadFacade:
    name = 'MainThread'
    daemon = False
    ident = 1000

    def is_alive(self):
        return True


_CTX = {}


def make_threading(kernel):
    m = types.ModuleType('sim_threading')
    main_facade = _MainThreadFacade()
    _CTX.clear()
    _CTX.update(kernel=kernel, threads={0: main_facade})

    def current_thread():
        return _CTX['threads'].get(kernel.current.idx, main_facade)

    m.Thread = SimThread
    m.RLock = lambda: K.SimLock(kernel, True)
    m.Lock = lambda: K.SimLock(kernel, False)
    m.Condition = lambda lock=None: K.SimCondition(kernel, lock)
    m.Event = lambda: K.SimEvent(kernel)
    m.current_thread = current_thread
    m.main_thread = lambda: main_facade
    m.get_ident = lambda: 1000 + kernel.current.idx
    m.TIMEOUT_MAX = K.TIMEOUT_MAX
    return m


def make_time(kernel):
    m = types.ModuleType('sim_time')
    m.time = kernel.time
    def sleep(secs):
        from . import kernel as K
        if secs != secs:
            raise ValueError('Invalid value NaN (not a number)')
        if secs < 0:
            raise ValueError('sleep length must be non-negative')
        K.check_timeout(secs)
        kernel.sleep(secs)
    m.sleep = sleep
    m.monotonic = lambda: kernel.now
    m.perf_counter = lambda: kernel.now
    m.strftime = lambda fmt, *a: 'SIMTIME'
    m.gmtime = _real_time.gmtime
    m.localtime = _real_time.localtime
    return m


def make_socket(net):
    m = types.ModuleType('sim_socket')
    for name in ('AF_INET', 'SOCK_STREAM', 'SOCK_DGRAM', 'SOL_SOCKET',
                 'SO_REUSEADDR', 'SHUT_RDWR'):
        setattr(m, name, getattr(N, name))
    m.socket = lambda family=N.AF_INET, type=N.SOCK_DGRAM, proto=0: \
        N.SimSocket(net, family, type, proto)
    m.gethostbyname = lambda host: '127.0.0.1' if host == 'localhost' else host
    m.error = OSError
    m.timeout = TimeoutError
    return m


class OrderedSet:
    """Insertion-ordered stand-in for `set()` (iteration order of a hash set
    of address-hashed objects is a source of nondeterminism; any order is a
    legal set order, insertion order is the one that replays)."""

    def __init__(self, it=()):
        self._d = dict.fromkeys(it)

    def add(self, x):
        self._d[x] = None

    def discard(self, x):
        self._d.pop(x, None)

    def remove(self, x):
        del self._d[x]

    def copy(self):
        return OrderedSet(self._d)

    def clear(self):
        self._d.clear()

    def __iter__(self):
        return iter(list(self._d))

    def __contains__(self, x):
        return x in self._d

    def __len__(self):
        return len(self._d)

    def __bool__(self):
        return bool(self._d)


class OrderedWeakSet:
    """Insertion-ordered stand-in for weakref.WeakSet (TempoClock._all)."""

    def __init__(self):
        self._d = {}   # id -> weakref

    def add(self, x):
        i = id(x)
        if i not in self._d:
            self._d[i] = weakref.ref(x, lambda r, i=i: self._d.pop(i, None))

    def remove(self, x):
        if id(x) not in self._d:
            raise KeyError(x)
        del self._d[id(x)]

    def discard(self, x):
        self._d.pop(id(x), None)

    def __contains__(self, x):
        r = self._d.get(id(x))
        return r is not None and r() is x

    def __iter__(self):
        for r in list(self._d.values()):
            o = r()
            if o is not None:
                yield o

    def __len__(self):
        return sum(1 for _ in self)


def install_rt(kernel, net, seed):
    """Patch the seams of sc3 for a real-time run.  Must run before
    sc3.init() and after the sc3 modules were imported."""
    import sc3
    import sc3.base.main as sm
    import sc3.base.clock as sclk
    import sc3.base._oscinterface as sosc
    import sc3.base.netaddr as snad
    import sc3.base.platform as splf
    import sc3.base._midiinterface as smid
    import sc3.synth.server as ssrv
    import sc3.synth.buffer as sbuf
    import sc3.synth.recorder as srec

    thr = make_threading(kernel)
    tim = make_time(kernel)
    sock = make_socket(net)

    for mod in (sm, sclk, sosc, splf, smid, ssrv):
        mod.threading = thr
    for mod in (sm, sosc, ssrv, sbuf, srec):
        mod.time = tim
    for mod in (sm, sosc, snad):
        mod.socket = sock

    for cls in (sm.RtMain, sm.NrtMain):
        cls._main_lock = K.SimLock(kernel, True, 'main')
        cls._def_build_lock = K.SimLock(kernel, False, 'defbuild')
        cls._m_rgen = random.Random(seed)

    # hash-set iteration order -> insertion order
    sosc.OscInterface._recv_functions = OrderedSet()
    sosc.OscInterface._local_endpoints = dict()
    sclk.TempoClock._all = OrderedWeakSet()

    sc3.LIB_SETUP_FILE = '/nonexistent/sc3-verif-startup.py'
    sc3._init_logger = lambda verbosity, blocking: None
    return thr, tim, sock


def install_nrt(seed):
    import sc3
    import sc3.base.main as sm
    import sc3.base.clock as sclk
    for cls in (sm.RtMain, sm.NrtMain):
        cls._m_rgen = random.Random(seed)
    sclk.TempoClock._all = OrderedWeakSet()
    sc3.LIB_SETUP_FILE = '/nonexistent/sc3-verif-startup.py'
    sc3._init_logger = lambda verbosity, blocking: None
