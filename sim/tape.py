"""Decision tape: every nondeterministic choice of a simulated run is one draw.

Modes
-----
generate : draws come from random.Random(seed) and are recorded.
replay   : draws come from a recorded list; past the end (or out of range) a
           draw reads as 0, which is by construction the least surprising
           choice everywhere (keep the baton, no latency, no fault).

Logging never draws.
"""

import random


class Tape:
    __slots__ = ('rng', 'rec', 'src', 'pos', 'overrun')

    def __init__(self, seed=None, replay=None):
        self.rec = []
        self.pos = 0
        self.overrun = 0
        if replay is not None:
            self.src = list(replay)
            self.rng = None
        else:
            self.src = None
            self.rng = random.Random(seed)

    def draw(self, n):
        """Integer in [0, n). n <= 1 consumes nothing."""
        if n <= 1:
            return 0
        if self.src is not None:
            if self.pos < len(self.src):
                v = self.src[self.pos]
                if not (0 <= v < n):
                    v = 0
            else:
                v = 0
                self.overrun += 1
            self.pos += 1
        else:
            v = self.rng.randrange(n)
        self.rec.append(v)
        return v

    def chance(self, permille):
        """True with probability permille/1000. 0 draws nothing."""
        if permille <= 0:
            return False
        # 0 must mean "no": hit when the draw is in the top range.
        return self.draw(1000) >= 1000 - permille

    def uniform(self, lo, hi):
        """Float in [lo, hi] on a 2**16 grid; 0 -> lo."""
        return lo + (hi - lo) * (self.draw(65536) / 65535.0)

    def choice(self, seq):
        return seq[self.draw(len(seq))]
