"""Independent, strict OSC 1.0 codec (written from the specification; shares
no code with sc3.base._osclib).  It is the eyes of every oracle that looks at
the wire."""

import struct

IMMEDIATELY = 1


class OscError(ValueError):
    pass


def _pad4(n):
    return (n + 3) & ~3


def enc_str(s):
    b = s.encode('ascii') if isinstance(s, str) else bytes(s)
    return b + b'\0' * (4 - len(b) % 4)


def enc_blob(b):
    b = bytes(b)
    return struct.pack('>i', len(b)) + b + b'\0' * (_pad4(len(b)) - len(b))


def encode_message(addr, args):
    tags = ','
    body = b''
    for a in args:
        if isinstance(a, bool):
            tags += 'T' if a else 'F'
        elif isinstance(a, int):
            tags += 'i'
            body += struct.pack('>i', a)
        elif isinstance(a, float):
            tags += 'f'
            body += struct.pack('>f', a)
        elif isinstance(a, str):
            tags += 's'
            body += enc_str(a)
        elif isinstance(a, (bytes, bytearray)):
            tags += 'b'
            body += enc_blob(a)
        elif a is None:
            tags += 'N'
        elif isinstance(a, tuple) and a and a[0] == 'raw':
            tags += a[1]
            body += a[2]
        else:
            raise OscError(f'cannot encode {a!r}')
    return enc_str(addr) + enc_str(tags) + body


def encode_bundle(timetag, elements):
    """elements: list of already encoded packets (bytes)."""
    out = b'#bundle\0' + struct.pack('>Q', timetag)
    for e in elements:
        out += struct.pack('>i', len(e)) + e
    return out


class Msg:
    __slots__ = ('addr', 'tags', 'args')

    def __init__(self, addr, tags, args):
        self.addr = addr
        self.tags = tags
        self.args = args

    def aslist(self):
        return [self.addr] + list(self.args)

    def __repr__(self):
        return f'Msg({self.addr!r}, {self.tags!r}, {self.args!r})'


class Bundle:
    __slots__ = ('timetag', 'elements')

    def __init__(self, timetag, elements):
        self.timetag = timetag
        self.elements = elements

    def __repr__(self):
        return f'Bundle({self.timetag}, {self.elements!r})'


def _read_str(data, pos):
    end = data.find(b'\0', pos)
    if end < 0:
        raise OscError('unterminated string')
    raw = data[pos:end]
    nxt = pos + _pad4(len(raw) + 1)
    if nxt > len(data):
        raise OscError('string padding beyond packet')
    if any(data[end:nxt]):
        raise OscError('non-zero string padding')
    try:
        s = raw.decode('ascii')
    except UnicodeDecodeError:
        raise OscError('non-ascii string')
    return s, nxt


def decode_message(data):
    if len(data) % 4:
        raise OscError('message size not a multiple of 4')
    addr, pos = _read_str(data, 0)
    if not addr.startswith('/'):
        raise OscError('address does not start with /')
    if pos >= len(data):
        # OSC 1.0: older senders may omit the type tag string
        return Msg(addr, '', [])
    tags, pos = _read_str(data, pos)
    if not tags.startswith(','):
        raise OscError('type tag string does not start with ,')
    args = []
    stack = [args]
    for t in tags[1:]:
        cur = stack[-1]
        if t == 'i':
            if pos + 4 > len(data):
                raise OscError('truncated int')
            cur.append(struct.unpack_from('>i', data, pos)[0])
            pos += 4
        elif t == 'f':
            if pos + 4 > len(data):
                raise OscError('truncated float')
            cur.append(struct.unpack_from('>f', data, pos)[0])
            pos += 4
        elif t == 'd':
            if pos + 8 > len(data):
                raise OscError('truncated double')
            cur.append(struct.unpack_from('>d', data, pos)[0])
            pos += 8
        elif t == 'h':
            if pos + 8 > len(data):
                raise OscError('truncated int64')
            cur.append(struct.unpack_from('>q', data, pos)[0])
            pos += 8
        elif t == 't':
            if pos + 8 > len(data):
                raise OscError('truncated timetag')
            cur.append(struct.unpack_from('>Q', data, pos)[0])
            pos += 8
        elif t == 's' or t == 'S':
            s, pos = _read_str(data, pos)
            cur.append(s)
        elif t == 'b':
            if pos + 4 > len(data):
                raise OscError('truncated blob size')
            n = struct.unpack_from('>i', data, pos)[0]
            pos += 4
            if n < 0 or pos + _pad4(n) > len(data):
                raise OscError('bad blob size')
            cur.append(bytes(data[pos:pos + n]))
            pos += _pad4(n)
        elif t == 'T':
            cur.append(True)
        elif t == 'F':
            cur.append(False)
        elif t == 'N':
            cur.append(None)
        elif t == 'I':
            cur.append(float('inf'))
        elif t == '[':
            new = []
            cur.append(new)
            stack.append(new)
        elif t == ']':
            if len(stack) < 2:
                raise OscError('unbalanced ]')
            stack.pop()
        else:
            raise OscError(f'unknown type tag {t!r}')
    if len(stack) != 1:
        raise OscError('unbalanced [')
    if pos != len(data):
        raise OscError('trailing bytes after arguments')
    return Msg(addr, tags, args)


def decode(data, depth=0):
    """Strict decode of one packet -> Msg | Bundle.  Raises OscError."""
    data = bytes(data)
    if depth > 32:
        raise OscError('nesting too deep')
    if len(data) == 0:
        raise OscError('empty packet')
    if data[:1] == b'#':
        if data[:8] != b'#bundle\0':
            raise OscError('bad bundle header')
        if len(data) < 16:
            raise OscError('truncated bundle header')
        tt = struct.unpack_from('>Q', data, 8)[0]
        pos = 16
        els = []
        while pos < len(data):
            if pos + 4 > len(data):
                raise OscError('truncated element size')
            n = struct.unpack_from('>i', data, pos)[0]
            pos += 4
            if n <= 0 or n % 4 or pos + n > len(data):
                raise OscError(f'bad element size {n}')
            els.append(decode(data[pos:pos + n], depth + 1))
            pos += n
        return Bundle(tt, els)
    return decode_message(data)


def flatten(pkt, tt=None):
    """-> list of (timetag or None, Msg) in document order."""
    if isinstance(pkt, Msg):
        return [(tt, pkt)]
    out = []
    for e in pkt.elements:
        out.extend(flatten(e, pkt.timetag))
    return out


def try_decode(data):
    try:
        return decode(data), None
    except OscError as e:
        return None, str(e)
    except (struct.error, IndexError) as e:   # should not happen
        return None, f'internal: {e}'
