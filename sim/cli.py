"""Command line of the checks: ./check <ID> --tier quick|thorough | --replay f"""

import argparse
import importlib
import json
import os
import sys
import time
import warnings

VERIF = os.path.dirname(os.path.dirname(os.path.abspath(__file__)))
if VERIF not in sys.path:
    sys.path.insert(0, VERIF)

warnings.simplefilter('ignore', SyntaxWarning)

from sim import runner as R     # noqa: E402
from sim import world           # noqa: E402


def load_known():
    p = os.path.join(VERIF, 'known_findings.json')
    if not os.path.exists(p):
        return []
    with open(p) as f:
        return json.load(f).get('findings', [])


def main(argv=None):
    ap = argparse.ArgumentParser()
    ap.add_argument('prop')
    ap.add_argument('--tier', default=os.environ.get('VERIF_TIER', 'quick'))
    ap.add_argument('--replay')
    ap.add_argument('--runs', type=int)
    ap.add_argument('--seconds', type=float)
    ap.add_argument('--digest-only', action='store_true')
    ap.add_argument('--no-shrink', action='store_true')
    ap.add_argument('--selftest', action='store_true')
    ap.add_argument('--digests', type=int,
                    help='print the event-log digests of the first N runs')
    ap.add_argument('--warmup', type=int, default=0,
                    help='with --digests: execute this many unrelated runs '
                         'first (perturbs the parent process state)')
    ap.add_argument('--seed-run', type=int,
                    help='execute the single run with this run seed and '
                         'print its result')
    a = ap.parse_args(argv)

    world.import_sc3()
    prop = importlib.import_module(f'props.{a.prop.lower()}')
    seed = int(os.environ.get('VERIF_SEED', '0') or 0)

    if a.replay:
        return do_replay(prop, a)
    if a.digests:
        for i in range(a.warmup):
            R.in_child(R.exec_run(prop, R.run_seed(seed + 777, prop.ID, i),
                                  a.tier))
        out = {}
        for i in range(a.digests):
            rs = R.run_seed(seed, prop.ID, i)
            st, res = R.in_child(R.exec_run(prop, rs, a.tier))
            out[str(rs)] = (res or {}).get('digest') if st == 'ok' else st
        print(json.dumps(out))
        return 0
    if a.seed_run is not None:
        st, res = R.in_child(R.exec_run(prop, a.seed_run, a.tier))
        if isinstance(res, dict):
            res.pop('sched', None)
        print(st, json.dumps(res, indent=1, default=repr)[:5000])
        return 0
    from sim import report
    return report.run_check(prop, a.tier, seed, a)


def do_replay(prop, a):
    with open(a.replay) as f:
        rp = json.load(f)
    if rp.get('kind') == 'extra_checks':
        ev, _ = prop.extra_checks('thorough', 0)
        for v in ev:
            print(json.dumps(v))
        if ev:
            print(f'VIOLATION property={prop.ID} replay={a.replay}')
            return 1
        return 0
    res = R.replay_once(prop, rp['case'], rp['sched'])
    if res is None:
        print('HARNESS-ERROR replay crashed')
        return 2
    if a.digest_only:
        print(res.get('digest'))
        return 0
    exp = rp.get('expected_violation')
    print(json.dumps({'violations': res['violations'],
                      'digest': res.get('digest'),
                      'recorded_digest': rp.get('event_log_digest')},
                     indent=1))
    if res['violations']:
        print(f'VIOLATION property={prop.ID} replay={a.replay}')
        return 1
    return 0


if __name__ == '__main__':
    sys.exit(main())
