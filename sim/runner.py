"""Batch runner: seeds -> forked children -> results -> evidence / replay files.

One simulated run = one forked child of a worker process.  The child builds
the case from its seed (or takes it from a replay file), executes it under the
property's world and oracles and writes one JSON result to a pipe.
"""

import hashlib
import json
import os
import select
import signal
import sys
import time
import traceback

from . import tape as T

VERIF = os.path.dirname(os.path.dirname(os.path.abspath(__file__)))
NPROC = int(os.environ.get('VERIF_NPROC', '0')) or min(16, os.cpu_count() or 1)
CHILD_TIMEOUT = float(os.environ.get('VERIF_CHILD_TIMEOUT', '30'))


def run_seed(base_seed, prop_id, index):
    h = hashlib.sha256(f'{base_seed}/{prop_id}/{index}'.encode()).digest()
    return int.from_bytes(h[:6], 'big')


class Ctx:
    """Handed to prop.run_case inside the child."""

    def __init__(self, fd):
        self.fd = fd

    def emit(self, result):
        data = json.dumps(result, default=repr).encode()
        mv = memoryview(data)
        while mv:
            n = os.write(self.fd, mv)
            mv = mv[n:]
        os._exit(0)


def in_child(fn, timeout=CHILD_TIMEOUT):
    """Run fn(ctx) in a forked child.  Returns (status, payload) where status
    is 'ok' | 'timeout' | 'crash'."""
    r, w = os.pipe()
    pid = os.fork()
    if pid == 0:
        try:
            os.close(r)
            signal.signal(signal.SIGINT, signal.SIG_DFL)
            ctx = Ctx(w)
            try:
                res = fn(ctx)
                ctx.emit(res)
            except SystemExit:
                raise
            except BaseException:
                ctx.emit({'harness_error': traceback.format_exc()})
        finally:
            os._exit(97)
    os.close(w)
    chunks = []
    deadline = time.monotonic() + timeout
    status = 'ok'
    while True:
        left = deadline - time.monotonic()
        if left <= 0:
            status = 'timeout'
            break
        rl, _, _ = select.select([r], [], [], left)
        if not rl:
            status = 'timeout'
            break
        b = os.read(r, 1 << 16)
        if not b:
            break
        chunks.append(b)
    os.close(r)
    if status == 'timeout':
        try:
            os.kill(pid, signal.SIGKILL)
        except ProcessLookupError:
            pass
    os.waitpid(pid, 0)
    if status == 'timeout':
        return 'timeout', None
    data = b''.join(chunks)
    if not data:
        return 'crash', None
    try:
        return 'ok', json.loads(data)
    except ValueError:
        return 'crash', data[:200].decode('latin1')


def exec_run(prop, seed, tier, case=None, sched=None):
    """Body of one run (inside the child)."""
    def body(ctx):
        if case is None:
            gt = T.Tape(seed=seed)
            c = prop.gen_case(gt, tier)
        else:
            c = case
        st = T.Tape(seed=seed ^ 0x5DEECE66D) if sched is None \
            else T.Tape(replay=sched)
        res = prop.run_case(c, st, ctx)
        if res.get('violations') or case is not None:
            res['case'] = c
            res['sched'] = st.rec
        return res
    return body


class Agg:
    def __init__(self):
        self.evaluations = 0
        self.sigs = set()
        self.nontrivial_sigs = set()
        self.probes = {}
        self.faults = {}
        self.outcomes = {}
        self.steps = 0
        self.vtime = 0.0
        self.samples = []
        self.violations = []
        self.harness_errors = []
        self.features = {}
        self.odd_seeds = []

    def add(self, seed, res):
        self.evaluations += 1
        for k, v in (res.get('probes') or {}).items():
            self.probes[k] = self.probes.get(k, 0) + v
        for k, v in (res.get('faults') or {}).items():
            self.faults[k] = self.faults.get(k, 0) + v
        for k in (res.get('features') or []):
            self.features[k] = self.features.get(k, 0) + 1
        oc = res.get('outcome', 'ok')
        self.outcomes[oc] = self.outcomes.get(oc, 0) + 1
        if oc != 'ok' and len(self.odd_seeds) < 5:
            self.odd_seeds.append([oc, seed])
        self.steps += res.get('steps', 0)
        self.vtime += res.get('vtime', 0.0)
        sig = res.get('sig')
        if sig is not None:
            self.sigs.add(sig)
            if res.get('nontrivial'):
                self.nontrivial_sigs.add(sig)
        for v in res.get('violations') or []:
            if len(self.violations) < 40:
                self.violations.append({
                    'seed': seed, 'violation': v, 'case': res.get('case'),
                    'sched': res.get('sched'), 'digest': res.get('digest')})

    def dump(self):
        return {
            'evaluations': self.evaluations,
            'sigs': sorted(self.sigs), 'nsigs': sorted(self.nontrivial_sigs),
            'probes': self.probes, 'faults': self.faults,
            'outcomes': self.outcomes, 'steps': self.steps,
            'vtime': self.vtime, 'samples': self.samples,
            'violations': self.violations,
            'harness_errors': self.harness_errors,
            'features': self.features, 'odd_seeds': self.odd_seeds}

    def merge(self, d):
        self.evaluations += d['evaluations']
        self.sigs.update(d['sigs'])
        self.nontrivial_sigs.update(d['nsigs'])
        for k, v in d['probes'].items():
            self.probes[k] = self.probes.get(k, 0) + v
        for k, v in d['faults'].items():
            self.faults[k] = self.faults.get(k, 0) + v
        for k, v in d['features'].items():
            self.features[k] = self.features.get(k, 0) + v
        for k, v in d['outcomes'].items():
            self.outcomes[k] = self.outcomes.get(k, 0) + v
        self.steps += d['steps']
        self.vtime += d['vtime']
        self.samples.extend(d['samples'])
        self.violations.extend(d['violations'])
        self.harness_errors.extend(d['harness_errors'])
        self.odd_seeds.extend(d.get('odd_seeds', []))


def worker_loop(prop, base_seed, tier, wid, nworkers, n_runs, deadline,
                det_check):
    agg = Agg()
    i = wid
    while True:
        if n_runs is not None and i >= n_runs:
            break
        if deadline is not None and time.monotonic() >= deadline:
            break
        seed = run_seed(base_seed, prop.ID, i)
        st, res = in_child(exec_run(prop, seed, tier))
        if st != 'ok' or 'harness_error' in (res or {}):
            agg.harness_errors.append(
                {'seed': seed, 'index': i, 'status': st,
                 'detail': (res or {}).get('harness_error')
                 if isinstance(res, dict) else res})
            if len(agg.harness_errors) > 5:
                break
            i += nworkers
            continue
        agg.add(seed, res)
        if wid == 0 and len(agg.samples) < 3:
            agg.samples.append({'seed': seed, 'sample': res.get('sample')})
        if i < det_check:
            st2, res2 = in_child(exec_run(prop, seed, tier))
            if st2 != 'ok' or res2.get('digest') != res.get('digest'):
                agg.harness_errors.append(
                    {'seed': seed, 'index': i, 'status': 'nondeterministic',
                     'detail': f"{res.get('digest')} vs "
                               f"{(res2 or {}).get('digest')}"})
        i += nworkers
    return agg.dump()


def run_batch(prop, base_seed, tier, n_runs=None, seconds=None, det_check=16,
              nworkers=None):
    nworkers = nworkers or NPROC
    deadline = None if seconds is None else time.monotonic() + seconds
    pipes = []
    for wid in range(nworkers):
        r, w = os.pipe()
        pid = os.fork()
        if pid == 0:
            os.close(r)
            try:
                d = worker_loop(prop, base_seed, tier, wid, nworkers, n_runs,
                                deadline, det_check)
                data = json.dumps(d, default=repr).encode()
            except BaseException:
                data = json.dumps({'worker_error': traceback.format_exc()}
                                  ).encode()
            mv = memoryview(data)
            while mv:
                n = os.write(w, mv)
                mv = mv[n:]
            os._exit(0)
        os.close(w)
        pipes.append((pid, r))
    agg = Agg()
    bufs = {r: [] for _, r in pipes}
    open_fds = [r for _, r in pipes]
    while open_fds:
        rl, _, _ = select.select(open_fds, [], [], 5.0)
        for r in rl:
            b = os.read(r, 1 << 20)
            if b:
                bufs[r].append(b)
            else:
                open_fds.remove(r)
                os.close(r)
    for pid, r in pipes:
        os.waitpid(pid, 0)
        data = b''.join(bufs[r])
        try:
            d = json.loads(data)
        except ValueError:
            agg.harness_errors.append({'status': 'worker-crash'})
            continue
        if 'worker_error' in d:
            agg.harness_errors.append(
                {'status': 'worker-error', 'detail': d['worker_error']})
            continue
        agg.merge(d)
    return agg


# ---------------------------------------------------------------- replay

def vclass(v):
    return (v.get('oracle'), v.get('key'))


def replay_once(prop, case, sched, tier='quick', seed=0):
    st, res = in_child(exec_run(prop, seed, tier, case=case, sched=sched))
    if st != 'ok' or res is None or 'harness_error' in res:
        return None
    return res


def has_class(res, cls):
    return res is not None and any(
        vclass(v) == cls for v in res.get('violations') or [])


def shrink(prop, case, sched, cls, budget=250, log=None):
    """Greedy minimisation: first the program (prop.shrink_candidates), then
    the schedule/fault tape (truncate, zero spans).  Keeps a candidate only
    when the same violation class persists."""
    runs = 0
    best_case, best_sched = case, sched

    def attempt(c, s):
        nonlocal runs
        runs += 1
        res = replay_once(prop, c, s)
        if has_class(res, cls):
            return res
        return None

    # 1. program
    gen = getattr(prop, 'shrink_candidates', None)
    if gen is not None:
        progress = True
        while progress and runs < budget:
            progress = False
            for cand in gen(best_case):
                if runs >= budget:
                    break
                res = attempt(cand, best_sched)
                if res is not None:
                    best_case = cand
                    best_sched = res['sched']
                    progress = True
                    break
    # 2. tape: truncate tail (binary), then zero blocks
    n = len(best_sched)
    cut = n // 2
    while cut >= 1 and runs < budget:
        cand = best_sched[:len(best_sched) - cut]
        if len(cand) < len(best_sched) and attempt(best_case, cand):
            best_sched = cand
        else:
            cut //= 2
    block = max(1, len(best_sched) // 4)
    while block >= 1 and runs < budget:
        i = 0
        while i < len(best_sched) and runs < budget:
            seg = best_sched[i:i + block]
            if any(seg):
                cand = best_sched[:i] + [0] * len(seg) + best_sched[i + block:]
                if attempt(best_case, cand):
                    best_sched = cand
            i += block
        block //= 2
    # strip trailing zeros (reads past the end are 0)
    while best_sched and best_sched[-1] == 0:
        best_sched = best_sched[:-1]
    res = replay_once(prop, best_case, best_sched)
    if not has_class(res, cls):
        # should not happen (deterministic); fall back to the original
        best_case, best_sched = case, sched
        res = replay_once(prop, best_case, best_sched)
    return best_case, best_sched, res, runs


def write_replay(prop_id, seed, case, sched, res, cls, kind='found'):
    d = os.path.join(VERIF, 'replays', kind)
    if os.environ.get('VERIF_EVIDENCE_DIR'):     # mutant runs: keep /verif clean
        d = os.path.join(os.environ['VERIF_EVIDENCE_DIR'], 'replays')
    os.makedirs(d, exist_ok=True)
    path = os.path.join(d, f'{prop_id}-{seed}.json')
    viol = [v for v in res['violations'] if vclass(v) == cls]
    with open(path, 'w') as f:
        json.dump({
            'property': prop_id, 'seed': seed, 'case': case, 'sched': sched,
            'expected_violation': {'oracle': cls[0], 'key': cls[1]},
            'detail': viol[0].get('detail') if viol else None,
            'event_log_digest': res.get('digest')}, f, indent=1, default=repr)
    return path
