"""Several worlds per case: each sub-run executes in its own forked
grandchild (sc3 keeps process-global state), drawing from a contiguous
segment of the case's tape so that one flat tape replays the whole case."""

import json
import os
import select
import signal
import time
import traceback

from . import tape as T


def subrun(tape, fn, timeout=25.0):
    """Run fn(subtape) -> JSON-able dict in a forked process.  In generate
    mode the sub-tape has its own seed drawn from the parent; in replay mode
    it reads the parent's tape from the current position.  The draws it made
    are appended to the parent's record either way."""
    if tape.src is None:
        sub_seed = tape.rng.randrange(1 << 48)
        mk = lambda: T.Tape(seed=sub_seed)
    else:
        rest = tape.src[tape.pos:]
        mk = lambda: T.Tape(replay=rest)
    r, w = os.pipe()
    pid = os.fork()
    if pid == 0:
        try:
            os.close(r)
            st = mk()

            def emit(res):
                res['_tape'] = st.rec
                data = json.dumps(res, default=repr).encode()
                mv = memoryview(data)
                while mv:
                    n = os.write(w, mv)
                    mv = mv[n:]
                os._exit(0)
            try:
                res = fn(st, emit)
                emit(res)
            except SystemExit:
                raise
            except BaseException:
                emit({'harness_error': traceback.format_exc()})
        finally:
            os._exit(98)
    os.close(w)
    chunks = []
    deadline = time.monotonic() + timeout
    ok = True
    while True:
        left = deadline - time.monotonic()
        if left <= 0:
            ok = False
            break
        rl, _, _ = select.select([r], [], [], left)
        if not rl:
            ok = False
            break
        b = os.read(r, 1 << 16)
        if not b:
            break
        chunks.append(b)
    os.close(r)
    if not ok:
        try:
            os.kill(pid, signal.SIGKILL)
        except ProcessLookupError:
            pass
    os.waitpid(pid, 0)
    if not ok:
        raise RuntimeError('sub-run timed out')
    data = b''.join(chunks)
    if not data:
        raise RuntimeError('sub-run crashed without output')
    res = json.loads(data)
    if 'harness_error' in res:
        raise RuntimeError('sub-run error: ' + res['harness_error'])
    rec = res.pop('_tape')
    tape.rec.extend(rec)
    if tape.src is not None:
        tape.pos += len(rec)
    return res
