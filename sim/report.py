"""One check run: batch search + regression corpus + known findings ->
verdict lines, replay files, evidence file."""

import glob
import json
import os
import subprocess
import sys
import time

from . import runner as R

VERIF = R.VERIF


def load_known(prop_id):
    p = os.path.join(VERIF, 'known_findings.json')
    if not os.path.exists(p):
        return []
    with open(p) as f:
        d = json.load(f)
    return [x for x in d.get('findings', [])
            if x.get('property') == prop_id and x.get('status') == 'open']


def finding_for(known, v):
    for f in known:
        m = f.get('match', {})
        if m.get('oracle') == v.get('oracle') and m.get('key') == v.get('key'):
            return f
    return None


def fresh_digest(prop_id, path):
    """Replay in a fresh interpreter and return its event-log digest."""
    try:
        out = subprocess.run(
            [os.path.join(VERIF, 'check'), prop_id, '--replay', path,
             '--digest-only'],
            capture_output=True, text=True, timeout=120,
            env=dict(os.environ, VERIF_HASHSEED='1'))
        lines = [l for l in out.stdout.strip().splitlines() if l.strip()]
        return lines[-1].strip() if lines else None
    except Exception as e:      # noqa
        return f'error: {e}'


def run_check(prop, tier, seed, args):
    t0 = time.time()
    quick = tier != 'thorough'
    n_runs = args.runs
    seconds = args.seconds
    if n_runs is None and seconds is None:
        if quick:
            n_runs = getattr(prop, 'QUICK_RUNS', 1000)
        else:
            seconds = float(os.environ.get(
                'VERIF_THOROUGH_SECONDS',
                getattr(prop, 'THOROUGH_SECONDS', 480)))
    known = load_known(prop.ID)
    lines = []
    exit_code = 0
    harness_err = []

    # 1. regression corpus (expected to pass) and known findings (expected to
    #    still fail)
    corpus_n = corpus_bad = 0
    for path in sorted(glob.glob(
            os.path.join(VERIF, 'replays', 'corpus', prop.ID, '*.json'))):
        with open(path) as f:
            rp = json.load(f)
        res = R.replay_once(prop, rp['case'], rp.get('sched', []))
        corpus_n += 1
        if res is None:
            harness_err.append(f'corpus replay crashed: {path}')
            continue
        bad = [v for v in res['violations'] if not finding_for(known, v)]
        if bad:
            corpus_bad += 1
            lines.append(f'VIOLATION property={prop.ID} replay={path}')
            lines.append(f'  {bad[0]["oracle"]} {bad[0]["key"]}: '
                         f'{bad[0]["detail"]}')
            exit_code = 1
    known_lines = {}
    for f in known:
        path = os.path.join(VERIF, f['replay'])
        if not os.path.exists(path):
            continue
        with open(path) as fh:
            rp = json.load(fh)
        res = R.replay_once(prop, rp['case'], rp.get('sched', []))
        if res is None:
            harness_err.append(f'known-finding replay crashed: {path}')
            continue
        if any(finding_for([f], v) for v in res['violations']):
            known_lines[f['id']] = (
                f'KNOWN-FINDING: property={prop.ID} {f["id"]}: {f["what"]}')
        other = [v for v in res['violations'] if not finding_for(known, v)]
        if other:
            lines.append(f'VIOLATION property={prop.ID} replay={path}')
            exit_code = 1

    # 2. seeded search
    agg = R.run_batch(prop, seed, tier, n_runs=n_runs, seconds=seconds,
                      det_check=(0 if not getattr(prop, 'DIGEST_STABLE', True)
                                 else 16 if quick else 32))
    for he in agg.harness_errors:
        harness_err.append(json.dumps(he)[:800])

    # 3. violations: attribute to known findings or confirm+minimise+report
    new_classes = {}
    for item in agg.violations:
        v = item['violation']
        f = finding_for(known, v)
        if f is not None:
            known_lines.setdefault(
                f['id'],
                f'KNOWN-FINDING: property={prop.ID} {f["id"]}: {f["what"]}')
            continue
        new_classes.setdefault(R.vclass(v), item)
    reported = []
    for cls, item in list(new_classes.items())[:4]:
        case, sched = item['case'], item['sched']
        res = R.replay_once(prop, case, sched)
        for _ in range(getattr(prop, 'REPLAY_RETRIES', 0)):
            if R.has_class(res, cls):
                break
            res = R.replay_once(prop, case, sched)
        if not R.has_class(res, cls):
            harness_err.append(
                f'nondeterministic: violation {cls} of seed {item["seed"]} '
                'did not reproduce')
            continue
        if not args.no_shrink:
            case, sched, res, nruns = R.shrink(prop, case, sched, cls)
        path = R.write_replay(prop.ID, item['seed'], case, sched, res, cls)
        fd = fresh_digest(prop.ID, path) \
            if getattr(prop, 'DIGEST_STABLE', True) else res.get('digest')
        if fd != res.get('digest'):
            harness_err.append(
                f'replay digest differs in a fresh interpreter: {path} '
                f'{fd} vs {res.get("digest")}')
        viol = [v for v in res['violations'] if R.vclass(v) == cls][0]
        lines.append(f'VIOLATION property={prop.ID} replay={path}')
        lines.append(f'  {viol["oracle"]} {viol["key"]}: {viol["detail"]}')
        reported.append({'class': list(cls), 'replay': path,
                         'detail': viol['detail']})
        exit_code = 1

    # property-specific checks outside the simulated batch (e.g. fresh
    # interpreters under different hash seeds)
    extra_stats = {}
    if hasattr(prop, 'extra_checks'):
        ev, extra_stats = prop.extra_checks(tier, seed)
        seen = set()
        for v in ev:
            if R.vclass(v) in seen:
                continue
            seen.add(R.vclass(v))
            d = os.path.join(
                os.environ.get('VERIF_EVIDENCE_DIR') or VERIF, 'replays',
                'found') if not os.environ.get('VERIF_EVIDENCE_DIR') else \
                os.path.join(os.environ['VERIF_EVIDENCE_DIR'], 'replays')
            os.makedirs(d, exist_ok=True)
            path = os.path.join(d, f'{prop.ID}-extra-{v["key"]}.json')
            with open(path, 'w') as f:
                json.dump({'property': prop.ID, 'kind': 'extra_checks',
                           'expected_violation': v}, f, indent=1)
            lines.append(f'VIOLATION property={prop.ID} replay={path}')
            lines.append(f'  {v["oracle"]} {v["key"]}: {v["detail"]}')
            reported.append({'class': [v['oracle'], v['key']],
                             'replay': path, 'detail': v['detail']})
            exit_code = 1
        for kk, vv in extra_stats.items():
            agg.probes[kk] = agg.probes.get(kk, 0) + vv

    for l in known_lines.values():
        print(l)
    for l in lines:
        print(l)
    if harness_err:
        for h in harness_err[:10]:
            print('HARNESS-ERROR', h)
        if exit_code == 0:
            exit_code = 2

    wall = time.time() - t0
    write_evidence(prop, tier, seed, agg, wall, corpus_n, corpus_bad,
                   list(known_lines), reported, harness_err)
    print(f'{prop.ID} {tier}: {agg.evaluations} runs, '
          f'{len(agg.nontrivial_sigs)} distinct non-trivial schedules, '
          f'{agg.vtime:.0f} simulated s, {wall:.1f} s wall, '
          f'outcomes {agg.outcomes}, exit {exit_code}')
    return exit_code


def write_evidence(prop, tier, seed, agg, wall, corpus_n, corpus_bad,
                   known_ids, reported, harness_err):
    evdir = os.environ.get('VERIF_EVIDENCE_DIR') or os.path.join(
        VERIF, 'evidence')
    os.makedirs(evdir, exist_ok=True)
    ev = {
        'property_id': prop.ID,
        'tier': 'thorough' if tier == 'thorough' else 'quick',
        'seed': seed,
        'level': 'exploration',
        'coverage': {
            'evaluations': agg.evaluations,
            'distinct_nontrivial': len(agg.nontrivial_sigs),
            'rule': getattr(prop, 'RULE', (
                'one evaluation = one simulated run (forked child, real sc3 '
                'code under the baton kernel) of a program and fault '
                'configuration generated from the seed; distinct = distinct '
                'schedule signature (hash of the thread chosen at every '
                'contended pick + fault kinds fired); non-trivial = at least '
                'one contended pick and at least one oracle-relevant event')),
            'samples': agg.samples[:3] or [{'note': 'no sample recorded'}],
            'distinct_schedule_signatures': len(agg.sigs),
            'runs_per_hour': int(agg.evaluations / max(wall, 1e-6) * 3600),
            'simulated_seconds': round(agg.vtime, 3),
            'kernel_steps': agg.steps,
            'faults_fired': agg.faults,
            'probes_hit': agg.probes,
            'outcomes': agg.outcomes,
            'inconclusive_seeds': agg.odd_seeds[:10],
            'features': agg.features,
            'regression_corpus_replayed': corpus_n,
            'regression_corpus_failed': corpus_bad,
            'known_findings_printed': known_ids,
            'violations_reported': reported,
            'harness_errors': harness_err[:10],
            'components': getattr(prop, 'COMPONENTS', {
                'real': 'all of sc3 (clocks, routines, OSC interface, '
                        'responders, server objects)',
                'stub': 'threading primitives, time, socket, scsynth peer, '
                        'log handler'}),
            'workers': R.NPROC,
        },
        'assumptions': getattr(prop, 'ASSUMPTIONS', [
            'shims implement CPython threading/time/socket semantics',
            'pre-emption only at synchronisation points (and LINE events '
            'where enabled)']),
        'wall_s': round(wall, 2),
        'violations': len(reported),
    }
    with open(os.path.join(evdir, f'{prop.ID}.json'), 'w') as f:
        json.dump(ev, f, indent=1, default=repr)
