"""Stand-in for scsynth on the simulated network: validates every command
against a grammar transcribed from the SuperCollider Server Command Reference,
keeps a minimal node/buffer table and answers /sync, /status, /b_query,
/n_query and asynchronous commands with /done.  It is a peer and an oracle; it
never initiates anything.  Runs in kernel timer context: never yields."""

from . import osc

# --------------------------------------------------------------- grammar
# Each rule works on the list of (tag, value) pairs of a decoded message.
# tags: i f s b  and 'A' for an array ([ ... ]) whose value is a list.


def _pairs(msg):
    out = []
    tags = msg.tags[1:]
    args = list(msg.args)

    def walk(tags, i, vals):
        res = []
        vi = 0
        while i < len(tags):
            t = tags[i]
            if t == '[':
                sub, i = walk(tags, i + 1, vals[vi])
                res.append(('A', sub))
                vi += 1
            elif t == ']':
                return res, i + 1
            else:
                tt = t
                if t in 'TF':
                    tt = 'i'
                res.append((tt, vals[vi]))
                vi += 1
                i += 1
        return res, i

    res, _ = walk(tags, 0, args)
    return res


def is_i(p):
    return p[0] == 'i'


def is_num(p):
    return p[0] in 'if'


def is_ctl(p):
    return p[0] in 'is'


def is_val(p):
    if p[0] in 'ifs':
        return True
    if p[0] == 'A':
        return all(is_val(x) for x in p[1])
    return False


def is_completion(p):
    # a completion message is a blob; the client sends int 0 for "none"
    return p[0] == 'b' or (p[0] == 'i' and p[1] == 0)


class Bad(Exception):
    pass


def need(cond, what):
    if not cond:
        raise Bad(what)


def rep(ps, start, group, what, minimum=1):
    """ps[start:] must be a repetition of len(group) predicates"""
    rest = ps[start:]
    n = len(group)
    need(len(rest) % n == 0 and len(rest) // n >= minimum,
         f'{what}: expected groups of {n}, got {len(rest)} argument(s)')
    for k in range(0, len(rest), n):
        for j, pred in enumerate(group):
            need(pred(rest[k + j]),
                 f'{what}: argument {start + k + j} has type '
                 f'{rest[k + j][0]!r}')


def ctl_vals(ps, start, what):
    rest = ps[start:]
    need(len(rest) % 2 == 0, f'{what}: odd number of control/value arguments')
    for k in range(0, len(rest), 2):
        need(is_ctl(rest[k]), f'{what}: control {rest[k]} is not int/str')
        need(is_val(rest[k + 1]), f'{what}: value {rest[k + 1]} not a value')


def counted(ps, start, what, first, value):
    """{first:start? i:count value*count}*  e.g. /n_setn, /c_setn, /b_setn"""
    i = start
    need(i < len(ps), f'{what}: no ranges')
    while i < len(ps):
        need(first(ps[i]), f'{what}: range start {ps[i]}')
        need(i + 1 < len(ps) and is_i(ps[i + 1]) and ps[i + 1][1] >= 0,
             f'{what}: missing count')
        n = ps[i + 1][1]
        need(i + 2 + n <= len(ps), f'{what}: count {n} exceeds the arguments')
        for p in ps[i + 2:i + 2 + n]:
            need(value(p), f'{what}: value {p}')
        i += 2 + n


def check(msg):
    """-> None if the message conforms to the command reference, else str."""
    try:
        ps = _pairs(msg)
        a = msg.addr
        if a == '/s_new':
            need(len(ps) >= 4, '/s_new: needs defname id addAction target')
            need(ps[0][0] == 's', '/s_new: defname must be a string')
            need(is_i(ps[1]) and is_i(ps[2]) and is_i(ps[3]),
                 '/s_new: id/addAction/target must be ints')
            need(0 <= ps[2][1] <= 4, f'/s_new: addAction {ps[2][1]}')
            ctl_vals(ps, 4, a)
        elif a in ('/g_new', '/p_new'):
            rep(ps, 0, [is_i, is_i, is_i], a)
            for k in range(0, len(ps), 3):
                need(0 <= ps[k + 1][1] <= 4, f'{a}: addAction {ps[k + 1][1]}')
        elif a in ('/n_free', '/n_query', '/n_trace', '/g_freeAll',
                   '/g_deepFree', '/b_query'):
            rep(ps, 0, [is_i], a)
        elif a in ('/n_run', '/n_before', '/n_after', '/g_head', '/g_tail',
                   '/g_dumpTree', '/g_queryTree'):
            rep(ps, 0, [is_i, is_i], a)
        elif a == '/n_set':
            need(len(ps) >= 1 and is_i(ps[0]), '/n_set: node id')
            ctl_vals(ps, 1, a)
        elif a == '/n_setn':
            need(len(ps) >= 1 and is_i(ps[0]), '/n_setn: node id')
            counted(ps, 1, a, is_ctl, is_num)
        elif a == '/n_fill':
            need(len(ps) >= 1 and is_i(ps[0]), '/n_fill: node id')
            rep(ps, 1, [is_ctl, is_i, is_num], a)
        elif a in ('/n_map', '/n_mapa'):
            need(len(ps) >= 1 and is_i(ps[0]), f'{a}: node id')
            rep(ps, 1, [is_ctl, is_i], a)
        elif a in ('/n_mapn', '/n_mapan'):
            need(len(ps) >= 1 and is_i(ps[0]), f'{a}: node id')
            rep(ps, 1, [is_ctl, is_i, is_i], a)
        elif a == '/n_order':
            need(len(ps) >= 3 and all(is_i(p) for p in ps), a)
        elif a == '/b_alloc':
            need(2 <= len(ps) <= 4, '/b_alloc: bufnum frames [channels] '
                                     '[completion]')
            need(is_i(ps[0]) and is_i(ps[1]), '/b_alloc: bufnum/frames ints')
            if len(ps) > 2:
                need(is_i(ps[2]), '/b_alloc: channels int')
            if len(ps) > 3:
                need(is_completion(ps[3]), '/b_alloc: completion message')
        elif a in ('/b_free', '/b_zero', '/b_close'):
            need(1 <= len(ps) <= 2 and is_i(ps[0]), f'{a}: bufnum')
            if len(ps) > 1:
                need(is_completion(ps[1]), f'{a}: completion message')
        elif a == '/b_set':
            need(len(ps) >= 3 and is_i(ps[0]), '/b_set: bufnum')
            rep(ps, 1, [is_i, is_num], a)
        elif a == '/b_setn':
            need(len(ps) >= 1 and is_i(ps[0]), '/b_setn: bufnum')
            counted(ps, 1, a, is_i, is_num)
        elif a == '/b_fill':
            need(len(ps) >= 1 and is_i(ps[0]), '/b_fill: bufnum')
            rep(ps, 1, [is_i, is_i, is_num], a)
        elif a == '/b_get':
            need(len(ps) >= 2 and all(is_i(p) for p in ps), a)
        elif a == '/b_getn':
            need(len(ps) >= 3 and is_i(ps[0]), a)
            rep(ps, 1, [is_i, is_i], a)
        elif a == '/c_set':
            rep(ps, 0, [is_i, is_num], a)
        elif a == '/c_setn':
            counted(ps, 0, a, is_i, is_num)
        elif a == '/c_fill':
            rep(ps, 0, [is_i, is_i, is_num], a)
        elif a == '/c_get':
            rep(ps, 0, [is_i], a)
        elif a == '/c_getn':
            rep(ps, 0, [is_i, is_i], a)
        elif a == '/sync':
            need(len(ps) == 1 and is_i(ps[0]), '/sync: id')
        elif a in ('/status', '/quit', '/clearSched', '/version',
                   '/rtMemoryStatus'):
            need(len(ps) == 0, f'{a}: no arguments')
        elif a in ('/notify',):
            need(1 <= len(ps) <= 2 and all(is_i(p) for p in ps), a)
        elif a in ('/dumpOSC', '/error'):
            need(len(ps) == 1 and is_i(ps[0]), a)
        elif a == '/d_recv':
            need(1 <= len(ps) <= 2 and ps[0][0] == 'b', '/d_recv: bytes')
            if len(ps) > 1:
                need(is_completion(ps[1]), '/d_recv: completion')
        elif a in ('/d_load', '/d_loadDir'):
            need(1 <= len(ps) <= 2 and ps[0][0] == 's', a)
        elif a == '/d_free':
            need(len(ps) >= 1 and all(p[0] == 's' for p in ps), a)
        elif a in ('/b_gen',):
            need(len(ps) >= 2 and is_i(ps[0]) and ps[1][0] == 's', a)
        elif a in ('/b_allocRead', '/b_read', '/b_write', '/b_allocReadChannel',
                   '/b_readChannel'):
            need(len(ps) >= 2 and is_i(ps[0]) and ps[1][0] == 's', a)
        else:
            raise Bad(f'unknown command {a}')
    except Bad as e:
        return str(e)
    except (IndexError, TypeError) as e:
        return f'{msg.addr}: malformed arguments ({e})'
    return None


# ---------------------------------------------------------------- server

class FakeServer:
    def __init__(self, net, addr=('127.0.0.1', 57110), reply_delay=1e-3):
        self.net = net
        self.k = net.k
        self.addr = addr
        self.reply_delay = reply_delay
        self.inbox = []          # (now, src, packet, raw)
        self.malformed = []      # (now, reason, repr)
        self.messages = []       # (now, timetag|None, Msg) flattened, in order
        self.buffers = {}
        self.nodes = {0: 'group'}
        self.fails = []
        net.register(addr, self)

    def __call__(self, data, src, dst):
        pkt, err = osc.try_decode(data)
        if err is not None:
            self.malformed.append((self.k.now, f'undecodable: {err}',
                                   data[:40].hex()))
            return
        self.inbox.append((self.k.now, src, pkt, data))
        for tt, m in osc.flatten(pkt):
            self.handle(m, tt, src)

    def reply(self, src, addr, args):
        data = osc.encode_message(addr, args)
        self.net.send(self.addr, src, data, faults=True,
                      delay=self.reply_delay)

    def handle(self, m, tt, src, nested=False):
        self.messages.append((self.k.now, tt, m))
        bad = check(m)
        if bad is not None:
            self.malformed.append((self.k.now, bad, repr(m.aslist())[:200]))
            return
        a = m.addr
        args = m.args
        if a == '/sync':
            self.reply(src, '/synced', [args[0]])
        elif a == '/status':
            self.reply(src, '/status.reply',
                       [1, 0, len(self.nodes), 1, 0, 0.1, 0.2, 48000.0,
                        48000.0])
        elif a == '/b_alloc':
            self.buffers[args[0]] = (args[1], args[2] if len(args) > 2 else 1)
            self.completion(args[3] if len(args) > 3 else 0, src)
            self.reply(src, '/done', ['/b_alloc', args[0]])
        elif a == '/b_free':
            if args[0] not in self.buffers:
                self.fails.append((self.k.now, '/b_free', args[0]))
            self.buffers.pop(args[0], None)
            self.completion(args[1] if len(args) > 1 else 0, src)
            self.reply(src, '/done', ['/b_free', args[0]])
        elif a == '/b_zero':
            self.completion(args[1] if len(args) > 1 else 0, src)
            self.reply(src, '/done', ['/b_zero', args[0]])
        elif a == '/b_query':
            for b in args:
                fr, ch = self.buffers.get(b, (0, 0))
                self.reply(src, '/b_info', [b, fr, ch, 48000.0])
        elif a == '/s_new':
            if args[1] in self.nodes:
                self.fails.append((self.k.now, '/s_new duplicate id',
                                   args[1]))
            self.nodes[args[1]] = 'synth'
        elif a in ('/g_new', '/p_new'):
            for i in range(0, len(args), 3):
                self.nodes[args[i]] = 'group'
        elif a == '/n_free':
            for n in args:
                self.nodes.pop(n, None)

    def completion(self, blob, src):
        if isinstance(blob, (bytes, bytearray)) and blob:
            pkt, err = osc.try_decode(bytes(blob))
            if err is not None:
                self.malformed.append((self.k.now,
                                       f'completion message: {err}', ''))
                return
            for tt, m in osc.flatten(pkt):
                self.handle(m, tt, src, nested=True)
