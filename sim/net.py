"""Simulated UDP network (SimNet) and socket shim (SimSocket).

Fault kinds (F5, per datagram, chosen from the tape when enabled for the
direction): drop, duplicate, delay/reorder, truncate, bit flip, bundle-element
length tampering, junk, empty.  F6: OSError on a chosen sendto.
Endpoints are either SimSockets (library side: a thread may be parked in
recvfrom) or plain callbacks (fake scsynth, remote senders), which run in
kernel timer context and must not yield.
"""

import errno
import struct

from . import kernel as K

AF_INET = 2
SOCK_STREAM = 1
SOCK_DGRAM = 2
SOL_SOCKET = 1
SO_REUSEADDR = 2
SHUT_RDWR = 2
MAX_UDP = 65507


class SimNet:
    def __init__(self, kernel, knobs=None):
        knobs = knobs or {}
        self.k = kernel
        self.endpoints = {}         # (host, port) -> SimSocket | callable
        self.base_delay = knobs.get('net_delay', 50e-6)
        self.jitter = knobs.get('net_jitter', 0.0)
        self.f5 = knobs.get('f5', {})          # kind -> permille (per datagram)
        self.f6_pm = knobs.get('f6_pm', 0)
        self.captured = []          # every datagram handed to sendto by sc3
        self.tap = None             # callable(src, dst, data, now)
        self.recv_log = []          # (now, port, data) at every recvfrom return

    # -- registration
    def register(self, addr, endpoint):
        self.endpoints[addr] = endpoint

    def unregister(self, addr):
        self.endpoints.pop(addr, None)

    # -- sending
    def send(self, src, dst, data, faults=True, delay=None):
        """Queue `data` for delivery from src to dst, applying F5 if enabled."""
        k = self.k
        tp = k.tape
        d = self.base_delay if delay is None else delay
        if self.jitter:
            d += tp.uniform(0.0, self.jitter)
        copies = [(d, data)]
        if faults and self.f5:
            f5 = self.f5
            if tp.chance(f5.get('drop', 0)):
                k.faults['F5-drop'] += 1
                copies = []
            elif tp.chance(f5.get('dup', 0)):
                k.faults['F5-dup'] += 1
                copies.append((d + tp.uniform(0.0, 2e-3), data))
            if copies and tp.chance(f5.get('delay', 0)):
                k.faults['F5-delay'] += 1
                copies = [(dd + tp.uniform(0.0, 20e-3), x) for dd, x in copies]
            if copies and tp.chance(f5.get('corrupt', 0)):
                copies = [(dd, self.corrupt(x)) for dd, x in copies]
        for dd, x in copies:
            self._schedule(src, dst, x, dd)

    def corrupt(self, data):
        """One tape-chosen mutation of a datagram."""
        k = self.k
        tp = k.tape
        kind = tp.draw(6)
        n = len(data)
        if kind == 0 and n:
            k.faults['F5-truncate'] += 1
            return data[:tp.draw(n)]
        if kind == 1 and n:
            k.faults['F5-bitflip'] += 1
            i = tp.draw(n)
            b = bytearray(data)
            b[i] ^= 1 << tp.draw(8)
            return bytes(b)
        if kind == 2 and n >= 20 and data[:8] == b'#bundle\0':
            k.faults['F5-lenfield'] += 1
            vals = (-4, -8, -1, 0, 2**31 - 1, n + 4, 3, 5)
            b = bytearray(data)
            b[16:20] = struct.pack('>i', vals[tp.draw(len(vals))])
            return bytes(b)
        if kind == 3:
            k.faults['F5-junk'] += 1
            return bytes(tp.draw(256) for _ in range(tp.draw(24)))
        if kind == 4:
            k.faults['F5-empty'] += 1
            return b''
        k.faults['F5-append'] += 1
        return data + bytes(tp.draw(256) for _ in range(1 + tp.draw(7)))

    def _schedule(self, src, dst, data, delay):
        k = self.k

        def deliver():
            ep = self.endpoints.get(dst)
            if ep is None:
                k.probes['net-undeliverable'] += 1
                return
            if isinstance(ep, SimSocket):
                ep._deliver(data, src)
            else:
                ep(data, src, dst)

        k.add_timer(k.now + delay, deliver)


class SimSocket:
    def __init__(self, net, family=AF_INET, type=SOCK_DGRAM, proto=0):
        self.net = net
        self.k = net.k
        self.family = family
        self.type = type
        self.addr = None
        self.inbox = []
        self.closed = False
        self.waiter = None

    def setsockopt(self, *a):
        pass

    def settimeout(self, t):
        pass

    def bind(self, addr):
        addr = (addr[0] or '127.0.0.1', addr[1])
        if addr in self.net.endpoints:
            e = OSError(errno.EADDRINUSE, 'Address already in use')
            raise e
        self.addr = addr
        self.net.register(addr, self)

    def getsockname(self):
        if self.addr is None:
            return ('0.0.0.0', 0)
        return self.addr

    def sendto(self, data, addr):
        k = self.k
        net = self.net
        if self.closed:
            raise OSError(errno.EBADF, 'Bad file descriptor')
        k.yield_point('sendto')
        data = bytes(data)
        if len(data) > MAX_UDP:
            raise OSError(errno.EMSGSIZE, 'Message too long')
        if net.f6_pm and addr != self.addr and k.tape.chance(net.f6_pm):
            k.faults['F6-senderr'] += 1
            raise OSError(errno.ENOBUFS, 'No buffer space available')
        src = self.addr or ('127.0.0.1', 0)
        rec = (k.now, src, addr, data, k.current.idx)
        net.captured.append(rec)
        if net.tap is not None:
            net.tap(rec)
        # library-originated traffic is delivered without F5 by default:
        # F5 is applied on the path towards the library (C18) and on replies
        net.send(src, addr, data, faults=False)
        return len(data)

    def _deliver(self, data, src):
        if self.closed:
            return
        self.inbox.append((data, src))
        w = self.waiter
        if w is not None and w.state == K.RECV:
            w.state = K.RUN
            w.wake_at = None
            self.waiter = None

    def recvfrom(self, bufsize):
        k = self.k
        me = k.current
        while not self.inbox:
            if self.closed:
                raise OSError(errno.EBADF, 'Bad file descriptor')
            k.step()
            me.state = K.RECV
            me.sock = self
            me.wake_at = None
            self.waiter = me
            k._switch()
        data, src = self.inbox.pop(0)
        k.log('recv', me.idx, len(data))
        self.net.recv_log.append(
            (k.now, self.addr[1] if self.addr else None, data))
        return data[:bufsize], src

    def close(self):
        if self.closed:
            return
        self.closed = True
        if self.addr is not None:
            self.net.unregister(self.addr)
        w = self.waiter
        if w is not None and w.state == K.RECV:
            w.state = K.RUN
            self.waiter = None

    def shutdown(self, how):
        pass

    def fileno(self):
        return -1
