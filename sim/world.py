"""Worlds: set up one simulated run of real sc3 code in this (forked) process."""

import logging
import os
import sys

from . import kernel as K
from . import net as N
from . import shims


class CaptureHandler(logging.Handler):
    def __init__(self, kernel=None):
        super().__init__(0)
        self.records = []
        self.kernel = kernel

    def emit(self, record):
        try:
            msg = record.getMessage()
        except Exception:
            msg = str(record.msg)
        now = self.kernel.now if self.kernel is not None else None
        self.records.append(
            (record.levelname, record.name, msg,
             bool(record.exc_info), now))


class RtWorld:
    """Real-time sc3 under the kernel.  The calling (real main) thread is the
    driver, i.e. the program's main thread."""

    def __init__(self, tape, knobs, seed=0):
        self.kernel = K.Kernel(tape, knobs)
        self.net = N.SimNet(self.kernel, knobs)
        self.tape = tape
        self.knobs = knobs
        self.thr, self.tim, self.sock = shims.install_rt(
            self.kernel, self.net, seed)
        self.logh = CaptureHandler(self.kernel)
        root = logging.getLogger()
        root.handlers[:] = [self.logh]
        root.setLevel(logging.INFO)

    def boot(self):
        import sc3
        import sc3.base.clock as sclk
        # deterministic order for `TempoClock.all` (a set() in the library)
        mt = type(sclk.TempoClock)
        mt.all = property(lambda cls: shims.OrderedSet(cls._all))
        sc3.init('rt', 'INFO', True)
        import sc3.base.main as sm
        self.main = sm.main
        if self.knobs.get('line_mean') and not self.knobs.get('line_manual'):
            self.enable_line_preemption()
        return self

    def enable_line_preemption(self):
        """LINE-level pre-emption (sys.monitoring) inside the library's time
        keeping and dispatch code for every simulated thread of this run:
        reaches interleavings between two synchronisation points (unguarded
        reads of main.current_tt, _in_awake_call, ...)."""
        import sc3.base.main as sm
        import sc3.base.clock as sclk
        import sc3.base.stream as sstm
        import sc3.base._oscinterface as sosc
        import sc3.base.responders as srpd
        k = self.kernel
        k.enable_monitoring(preempt_codes=K.code_objects(
            sm, sclk, sstm, sosc, srpd))
        shims._CTX['line_preempt_all'] = True
        for t in k.threads:
            t.line_preempt = True

    # thread roles by (deterministic) name
    def thread_by_name(self, prefix):
        for t in self.kernel.threads:
            if t.name.startswith(prefix):
                return t
        return None

    def error_logs(self):
        return [r for r in self.logh.records if r[0] in ('ERROR', 'CRITICAL')]


class NrtWorld:
    def __init__(self, seed=0):
        shims.install_nrt(seed)
        self.logh = CaptureHandler(None)
        root = logging.getLogger()
        root.handlers[:] = [self.logh]
        root.setLevel(logging.INFO)

    def boot(self):
        import sc3
        sc3.init('nrt')
        import sc3.base.main as sm
        self.main = sm.main
        return self

    def error_logs(self):
        return [r for r in self.logh.records if r[0] in ('ERROR', 'CRITICAL')]


def import_sc3(repo=None):
    """Import (not initialise) sc3 from the repository working tree."""
    repo = repo or os.environ.get('VERIF_REPO', '/repo')
    repo = os.path.abspath(repo)
    if sys.path[0] != repo:
        sys.path.insert(0, repo)
    import sc3
    f = os.path.abspath(sc3.__file__)
    if not f.startswith(repo + os.sep):
        raise RuntimeError(f'sc3 imported from {f}, not from {repo}')
    # everything a run may need, imported once in the parent
    import sc3.base.main, sc3.base.clock, sc3.base.stream       # noqa
    import sc3.base._oscinterface, sc3.base.netaddr              # noqa
    import sc3.base.responders, sc3.base.systemactions           # noqa
    import sc3.synth.server, sc3.synth.synthdef, sc3.synth.ugens  # noqa
    import sc3.synth.node, sc3.synth.bus, sc3.synth.buffer       # noqa
    import sc3.synth.systemdefs, sc3.synth.synthdesc             # noqa
    import sc3.seq.event, sc3.seq.eventstream, sc3.seq.pattern   # noqa
    import sc3.seq.patterns                                       # noqa
    return sc3
