"""Baton-passing deterministic kernel.

Exactly one simulated thread executes at any instant.  Simulated threads are
real OS threads that run only while they hold the baton (a private real
semaphore each).  The baton moves only at yield points inside the shims
(locks, conditions, thread start/join/exit, sleep, time, sockets, optional
LINE events).  Every choice is a draw from the run's tape.

Virtual time: ``now`` (seconds since library start).  It advances by
  (a) jumping to the next timed event when nothing is runnable,
  (b) execution cost drawn at yield points (F2),
  (c) stalls drawn at yield points (F3).
Timed waits get wake_at = now + timeout + latency (F1).
"""

import heapq
import hashlib
import sys
import threading as _rt
from collections import Counter

# thread states
NEW, RUN, WANT, COND, SLEEP, JOIN, RECV, IDLEWAIT, DONE = range(9)
STATE_NAMES = ['NEW', 'RUN', 'WANT', 'COND', 'SLEEP', 'JOIN', 'RECV',
               'IDLEWAIT', 'DONE']

EPOCH_REAL = 1_700_000_000.0
EPOCH_EXACT = 4096.0


class KernelFinished(BaseException):
    """Raised (only when no on_finish hook is installed) to unwind."""

    def __init__(self, outcome):
        super().__init__(outcome)
        self.outcome = outcome


class SimThreadState:
    """Kernel-side record of one simulated thread."""

    __slots__ = (
        'idx', 'name', 'sem', 'state', 'want', 'wake_at', 'cond', 'notified',
        'join_target', 'sock', 'last_time_read', 'wait_from', 'wait_timeout',
        'exc', 'prio', 'real', 'role', 'line_preempt', 'until', 'joiners',
        'saved_count', 'activations', 'parks')

    def __init__(self, idx, name):
        self.idx = idx
        self.name = name
        self.sem = _rt.Semaphore(0)
        self.state = NEW
        self.want = None
        self.wake_at = None
        self.cond = None
        self.notified = False
        self.join_target = None
        self.sock = None
        self.last_time_read = None   # last value (virtual now) read via time()
        self.wait_from = None        # last_time_read at the moment of parking
        self.wait_timeout = None     # timeout asked for
        self.exc = None
        self.prio = 0
        self.real = None
        self.role = None
        self.line_preempt = False
        self.until = None
        self.joiners = []
        self.saved_count = 0
        self.activations = 0
        self.parks = 0

    def __repr__(self):
        return f'<T{self.idx} {self.name} {STATE_NAMES[self.state]}>'


class Kernel:
    def __init__(self, tape, knobs=None):
        knobs = knobs or {}
        self.tape = tape
        self.knobs = knobs
        self.policy = knobs.get('policy', 'random')
        self.lat_mode = knobs.get('lat', 0)
        self.cost = knobs.get('cost', 0.0)
        self.stall_pm = knobs.get('stall_pm', 0)
        self.stall_max = knobs.get('stall_max', 0.5)
        self.time_yield = knobs.get('time_yield', False)
        self.epoch = EPOCH_REAL if knobs.get('epoch', 'exact') == 'real' \
            else EPOCH_EXACT
        self.max_steps = knobs.get('max_steps', 20000)
        self.max_time = knobs.get('max_time', 3600.0)
        self.line_mean = knobs.get('line_mean', 0)   # mean gap in LINE events

        self.now = 0.0
        self.threads = []
        self.current = None
        self.timers = []          # heap (time, seq, fn)
        self._tseq = 0
        self.steps = 0
        self.frozen = False
        self.finished = None
        self.on_finish = None     # callable(outcome) -> never returns
        self.on_quiescence = []   # callables(kernel)
        self.probes = Counter()
        self.faults = Counter()
        self.sig = []             # contended pick choices
        self.contended = 0
        self.evlog = []
        self.log_events = knobs.get('log_events', True)
        self.lock_seq = 0         # global sequence of outermost lock acquisitions
        self._line_gap = 0
        self.lines = 0
        self._spin = 0
        self._budget = 0
        self.hangs = []
        self._rr_last = 0

        # PCT
        self._pct_points = ()
        if self.policy.startswith('pct'):
            d = int(self.policy[3:] or 1)
            est = knobs.get('pct_est_steps', 600)
            self._pct_points = sorted(
                1 + tape.draw(est) for _ in range(d))
            self._pct_low = 0

        # the driver: the real thread that constructs the kernel
        t = self._new_thread('driver')
        t.state = RUN
        t.real = _rt.current_thread()
        t.role = 'driver'
        self.current = t
        self.driver = t

    # ------------------------------------------------------------------ log
    def log(self, *ev):
        if self.log_events:
            self.evlog.append(ev)

    def digest(self):
        h = hashlib.sha1()
        for ev in self.evlog:
            h.update(repr(ev).encode())
        h.update(repr(self.now).encode())
        return h.hexdigest()

    def schedule_signature(self):
        h = hashlib.sha1(repr(self.sig).encode())
        h.update(repr(sorted(k for k, v in self.faults.items() if v)).encode())
        return h.hexdigest()[:16]

    # -------------------------------------------------------------- threads
    def _new_thread(self, name):
        t = SimThreadState(len(self.threads), name)
        if self.policy.startswith('pct'):
            t.prio = 1000 + self.tape.draw(1000)
        self.threads.append(t)
        return t

    def spawn(self, name, target, role=None, line_preempt=False):
        """Create and start a simulated thread running target()."""
        me = self.current
        t = self._new_thread(name)
        t.role = role
        t.line_preempt = line_preempt

        def boot():
            t.sem.acquire()
            t.activations += 1
            try:
                target()
            except KernelFinished:
                return
            except BaseException as e:   # thread dies with an exception
                t.exc = e
                self.log('thread-exc', t.idx, type(e).__name__)
                self.probes['thread-died-with-exception'] += 1
            self._thread_exit(t)

        t.real = _rt.Thread(target=boot, name=f'sim-{t.idx}', daemon=True)
        t.state = RUN
        t.real.start()
        self.log('spawn', me.idx, t.idx)
        return t

    def _thread_exit(self, t):
        t.state = DONE
        self.log('exit', t.idx)
        for j in t.joiners:
            if j.state == JOIN and j.join_target is t:
                j.state = RUN
                j.join_target = None
                j.wake_at = None
                j.notified = True
        t.joiners.clear()
        self._switch()

    def join(self, t, timeout=None):
        me = self.current
        self.yield_point('join')
        if t.state == DONE or t.state == NEW:
            return
        me.state = JOIN
        me.join_target = t
        me.notified = False
        t.joiners.append(me)
        self._park_timed(me, timeout)
        self._switch()

    # ----------------------------------------------------------------- time
    def time(self):
        me = self.current
        # A loop that polls the clock without ever reaching a yield point
        # must not freeze virtual time: busy-waiting consumes time.
        self._spin += 1
        if self._spin > 200:
            self.now += 1e-6
            self.probes['spin-time-advance'] += 1
            if self._spin > 200000:
                self.finish('livelock')
        if self.time_yield and not self.frozen:
            sp = self._spin
            self.yield_point('time')
            self._spin = sp
        me.last_time_read = self.now
        return self.epoch + self.now

    def sleep(self, secs):
        me = self.current
        self.step()
        me.state = SLEEP
        self._park_timed(me, max(0.0, secs))
        self._switch()

    def wait_idle(self, until):
        """Driver helper: resume when the system is quiescent and nothing
        is due before virtual time `until`, or at `until`."""
        me = self.current
        self.step()
        me.state = IDLEWAIT
        me.until = until
        me.wake_at = None
        self._switch()

    def _park_timed(self, me, timeout):
        me.wait_from = me.last_time_read
        me.wait_timeout = timeout
        if timeout is None:
            me.wake_at = None
        else:
            if timeout < (5e-10 if self.epoch == EPOCH_EXACT else 1e-6):
                # a wait that cannot block still costs a system call: without
                # this a loop of zero-length waits would freeze virtual time
                # (with the realistic epoch the library's clock has a
                # 0.24 us quantum: the call must at least cross one)
                timeout = 5e-10 if self.epoch == EPOCH_EXACT else 1e-6
                self.probes['zero-timeout-wait'] += 1
            me.wake_at = self.now + timeout + self._latency()

    def _latency(self):
        m = self.lat_mode
        if m == 0:
            return 0.0
        tp = self.tape
        if m == 1:
            v = tp.uniform(0.0, 200e-6)
        elif m == 2:
            v = tp.uniform(0.0, 5e-3)
        elif m == 4:          # bounded small jitter (C10): <= 2 ms
            v = tp.uniform(0.0, 2e-3)
        elif m == 5:          # loaded machine: every third wake-up is late
            if tp.draw(3):    # by tens to hundreds of milliseconds
                v = tp.uniform(0.0, 200e-6)
            else:
                v = tp.uniform(0.02, 0.3)
                self.faults['F1-latency-big'] += 1
        else:
            r = tp.draw(100)
            if r < 50:
                v = 0.0
            elif r < 80:
                v = tp.uniform(0.0, 200e-6)
            elif r < 97:
                v = tp.uniform(0.0, 5e-3)
            else:
                v = tp.uniform(0.05, 2.0)
                self.faults['F1-latency-big'] += 1
        if v > 0.0:
            self.faults['F1-latency'] += 1
        return v

    def add_timer(self, at, fn):
        self._tseq += 1
        heapq.heappush(self.timers, (at, self._tseq, fn))

    # ---------------------------------------------------------- yield/switch
    def step(self):
        self.steps += 1
        self._spin = 0
        self._budget = 0
        if self.steps > self.max_steps:
            self.finish('inconclusive-steps')

    def yield_point(self, kind):
        if self.frozen:
            return
        self.step()
        if self.cost:
            c = self.tape.uniform(0.0, self.cost)
            if c:
                self.now += c
                self.faults['F2-cost'] += 1
        if self.stall_pm:
            pm = self.stall_pm * 3 if kind == 'rel' else self.stall_pm
            if self.tape.chance(pm):
                self.now += self.tape.uniform(1e-3, self.stall_max)
                self.faults['F3-stall'] += 1
                if kind == 'rel':
                    self.probes['stall-after-lock-release'] += 1
        self.current.state = RUN
        self._switch()

    def line_point(self):
        """Called from the LINE monitoring callback of a pre-emptible thread."""
        if self.frozen:
            return
        self.lines += 1
        self._line_gap -= 1
        if self._line_gap <= 0:
            m = max(2, self.line_mean)
            self._line_gap = 2 * m - self.tape.draw(2 * m)
            self.probes['line-preemption-point'] += 1
            self.yield_point('line')

    def _switch(self):
        me = self.current
        nxt = self._pick()
        if nxt is me:
            return
        self.current = nxt
        nxt.activations += 1
        nxt.sem.release()
        if me.state != DONE:
            me.sem.acquire()

    def _runnable(self):
        res = []
        for t in self.threads:
            s = t.state
            if s == RUN:
                res.append(t)
            elif s == WANT and t.want.owner is None:
                res.append(t)
        return res

    def _fire_due(self):
        now = self.now
        # timers
        tm = self.timers
        while tm and tm[0][0] <= now:
            _, _, fn = heapq.heappop(tm)
            fn()
        # timed waiters
        for t in self.threads:
            w = t.wake_at
            if w is not None and w <= now:
                s = t.state
                if s == COND:
                    t.cond._timeout(t)
                elif s == SLEEP:
                    t.state = RUN
                    t.wake_at = None
                elif s == JOIN:
                    try:
                        t.join_target.joiners.remove(t)
                    except ValueError:
                        pass
                    t.join_target = None
                    t.state = RUN
                    t.wake_at = None
                elif s == RECV:
                    t.state = RUN
                    t.wake_at = None

    def _next_time(self):
        nt = self.timers[0][0] if self.timers else None
        for t in self.threads:
            w = t.wake_at
            if w is not None and t.state in (COND, SLEEP, JOIN, RECV):
                if nt is None or w < nt:
                    nt = w
        return nt

    def _pick(self):
        while True:
            self._fire_due()
            cands = self._runnable()
            if cands:
                break
            # quiescent: nothing can run at this instant
            nt = self._next_time()
            idle = None
            for t in self.threads:
                if t.state == IDLEWAIT:
                    idle = t
                    break
            if self.on_quiescence:
                for cb in self.on_quiescence:
                    cb(self)
            if idle is not None and (nt is None or nt > idle.until):
                # nothing is due before `until`: the waiter resumes (at
                # `until` when later events exist, else right now)
                if nt is not None and self.now < idle.until:
                    self.now = idle.until
                idle.state = RUN
                idle.until = None
                continue
            if nt is None:
                self.finish('deadlock')
            if nt > self.max_time:
                self.finish('inconclusive-time')
            if nt > self.now:
                self.now = nt
                self.probes['time-jump'] += 1
        me = self.current
        n = len(cands)
        if n == 1:
            ch = cands[0]
        else:
            ch = self._choose(cands, me, n)
            self.sig.append(ch.idx)
        if ch.state == WANT:
            # hand the lock over right now so nobody else can take it
            ch.want.owner = ch
            ch.state = RUN
        if ch is not me:
            self.log('sw', me.idx, ch.idx, self.steps)
        return ch

    def _choose(self, cands, me, n):
        pol = self.policy
        tp = self.tape
        self.contended += 1
        if pol == 'rr':
            ch = None
            for t in cands:
                if t.idx > self._rr_last:
                    ch = t
                    break
            if ch is None:
                ch = cands[0]
            self._rr_last = ch.idx
            return ch
        if pol.startswith('pct'):
            if self._pct_points and self.steps >= self._pct_points[0]:
                self._pct_points = self._pct_points[1:]
                self._pct_low += 1
                me.prio = self._pct_low     # below every initial priority
                self.probes['pct-priority-change'] += 1
            return max(cands, key=lambda t: (t.prio, -t.idx))
        if me in cands:
            cands.remove(me)
            cands.insert(0, me)
            if pol.startswith('sticky'):
                p = int(pol[6:] or 50)
                if tp.draw(100) < p:
                    return me
                return cands[1 + tp.draw(n - 1)]
        return cands[tp.draw(n)]

    # --------------------------------------------------------------- finish
    def freeze(self):
        """Stop scheduling: yield points become no-ops (end-of-run oracles)."""
        self.frozen = True

    def finish(self, outcome):
        self.finished = outcome
        self.frozen = True
        if self.on_finish is not None:
            self.on_finish(outcome)
            raise SystemExit(70)    # on_finish must not return
        raise KernelFinished(outcome)

    # ------------------------------------------------------- LINE monitoring
    TOOL_ID = 3

    def enable_line_preemption(self, codes):
        self.enable_monitoring(preempt_codes=codes)

    def enable_monitoring(self, preempt_codes=(), budget_codes=(),
                          budget=200000):
        """LINE events on the given code objects: pre-emption points (for
        threads marked line_preempt) and/or a deterministic hang detector: more
        than `budget` LINE events in the budget codes without reaching any
        yield point raises HangDetected inside the spinning frame (and is
        recorded, whatever the code under test does with the exception)."""
        mon = sys.monitoring
        try:
            mon.use_tool_id(self.TOOL_ID, 'sim-kernel')
        except ValueError:
            pass
        m = max(2, self.line_mean)
        if preempt_codes:
            self._line_gap = 2 * m - self.tape.draw(2 * m)
        # cumulative: several callers may add code objects
        self._mon_pre = getattr(self, '_mon_pre', set()) | set(preempt_codes)
        self._mon_bud = getattr(self, '_mon_bud', set()) | set(budget_codes)
        pre = self._mon_pre
        bud = self._mon_bud
        self._budget = 0
        self._budget_limit = budget

        def cb(code, line):
            if self.frozen:
                return
            cur = self.current
            if cur.real is not _rt.current_thread():
                return
            if code in bud:
                self._budget += 1
                if self._budget > self._budget_limit:
                    self._budget = 0
                    self.probes['hang-budget-exceeded'] += 1
                    self.hangs.append((cur.idx, code.co_name, line))
                    raise HangDetected(f'{code.co_name}:{line}')
            if cur.line_preempt and code in pre:
                self.line_point()

        mon.register_callback(self.TOOL_ID, mon.events.LINE, cb)
        for co in pre | bud:
            mon.set_local_events(self.TOOL_ID, co, mon.events.LINE)


class HangDetected(BaseException):
    pass


def code_objects(*modules_or_funcs):
    """All code objects (recursively) defined in the given modules."""
    import types
    seen = {}

    def walk(co):
        if id(co) in seen:
            return
        seen[id(co)] = co
        for c in co.co_consts:
            if isinstance(c, types.CodeType):
                walk(c)

    def from_obj(o, modname):
        if isinstance(o, types.FunctionType):
            if o.__module__ == modname:
                walk(o.__code__)
        elif isinstance(o, (classmethod, staticmethod)):
            from_obj(o.__func__, modname)
        elif isinstance(o, property):
            for f in (o.fget, o.fset, o.fdel):
                if f is not None:
                    from_obj(f, modname)
        elif isinstance(o, type):
            if o.__module__ == modname:
                for v in list(vars(o).values()):
                    from_obj(v, modname)

    for mod in modules_or_funcs:
        name = mod.__name__
        for v in list(vars(mod).values()):
            from_obj(v, name)
        for t in list(vars(mod).values()):
            if isinstance(t, type) and t.__module__ == name:
                for meta in type(t).__mro__:
                    if meta.__module__ == name:
                        for v in list(vars(meta).values()):
                            from_obj(v, name)
    return list(seen.values())


# ============================================================= primitives

class SimLock:
    """threading.Lock / RLock with CPython semantics under the kernel."""

    def __init__(self, kernel, reentrant, name=None):
        self.k = kernel
        self.reentrant = reentrant
        self.owner = None
        self.count = 0
        self.name = name
        self.acq_seq = 0   # global sequence number of the last outermost acquire

    def acquire(self, blocking=True, timeout=-1):
        k = self.k
        if k.frozen:
            if self.owner is None or self.owner is k.current:
                self.owner = k.current
                self.count += 1
                return True
            return False
        k.yield_point('acq')
        me = k.current
        if self.owner is me:
            if self.reentrant:
                self.count += 1
                return True
            # self-deadlock on a plain Lock: park forever
            k.probes['self-deadlock'] += 1
        if self.owner is not None:
            if not blocking:
                return False
            k.probes['lock-contended'] += 1
            me.state = WANT
            me.want = self
            k.step()
            k._switch()          # returns owning the lock (set in _pick)
            me.want = None
        else:
            self.owner = me
        self.count = 1
        k.lock_seq += 1
        self.acq_seq = k.lock_seq
        return True

    def release(self):
        k = self.k
        me = k.current
        if self.owner is not me:
            if k.frozen:
                return
            raise RuntimeError('cannot release un-acquired lock')
        self.count -= 1
        if self.count == 0:
            self.owner = None
            k.yield_point('rel')

    __enter__ = acquire

    def __exit__(self, *a):
        self.release()

    def locked(self):
        return self.owner is not None

    def _is_owned(self):
        return self.owner is self.k.current


TIMEOUT_MAX = 9223372036.0       # threading.TIMEOUT_MAX on 64-bit CPython


def check_timeout(timeout):
    """CPython refuses timeouts it cannot convert to its C time type:
    Condition.wait / Lock.acquire / time.sleep raise instead of waiting."""
    if timeout is None or isinstance(timeout, bool):
        return
    if timeout != timeout:
        raise ValueError('Invalid value NaN (not a number)')
    if timeout > TIMEOUT_MAX:
        raise OverflowError('timestamp out of range for platform time_t')


class SimCondition:
    def __init__(self, kernel, lock=None):
        self.k = kernel
        if lock is None:
            lock = SimLock(kernel, True)
        self._lock = lock
        self.waiters = []
        self.acquire = lock.acquire
        self.release = lock.release

    def __enter__(self):
        return self._lock.acquire()

    def __exit__(self, *a):
        self._lock.release()

    def wait(self, timeout=None):
        k = self.k
        lock = self._lock
        me = k.current
        if lock.owner is not me:
            raise RuntimeError('cannot wait on un-acquired lock')
        check_timeout(timeout)
        if k.frozen:
            return False
        k.step()
        me.saved_count = lock.count
        lock.count = 0
        lock.owner = None
        self.waiters.append(me)
        me.notified = False
        me.state = COND
        me.cond = self
        me.parks += 1
        k._park_timed(me, timeout)
        k.log('cwait', me.idx, None if timeout is None else round(timeout, 9))
        k._switch()
        # resumed owning the lock (handed over in _pick)
        me.want = None
        lock.count = me.saved_count
        k.lock_seq += 1
        lock.acq_seq = k.lock_seq
        return me.notified

    def _wake(self, t, notified):
        # t leaves the wait set and now needs the lock
        t.notified = notified
        t.cond = None
        t.wake_at = None
        t.state = WANT
        t.want = self._lock

    def _timeout(self, t):
        try:
            self.waiters.remove(t)
        except ValueError:
            pass
        self._wake(t, False)

    def wait_for(self, predicate, timeout=None):
        endtime = None
        result = predicate()
        while not result:
            if timeout is not None:
                if endtime is None:
                    endtime = self.k.now + timeout
                wt = endtime - self.k.now
                if wt <= 0:
                    break
                self.wait(wt)
            else:
                self.wait(None)
            result = predicate()
        return result

    def notify(self, n=1):
        k = self.k
        if self._lock.owner is not k.current:
            if k.frozen:
                return
            raise RuntimeError('cannot notify on un-acquired lock')
        for _ in range(n):
            if not self.waiters:
                break
            t = self.waiters.pop(0)
            self._wake(t, True)
            k.log('notify', k.current.idx, t.idx)

    def notify_all(self):
        self.notify(len(self.waiters))

    notifyAll = notify_all


class SimEvent:
    def __init__(self, kernel):
        self._cond = SimCondition(kernel, SimLock(kernel, False))
        self._flag = False

    def is_set(self):
        return self._flag

    isSet = is_set

    def set(self):
        with self._cond:
            self._flag = True
            self._cond.notify_all()

    def clear(self):
        with self._cond:
            self._flag = False

    def wait(self, timeout=None):
        with self._cond:
            if not self._flag:
                self._cond.wait(timeout)
            return self._flag
