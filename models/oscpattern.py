"""Textbook OSC 1.0 address pattern matcher (backtracking), written from the
specification.  `cross=False`: wildcards never consume '/', i.e. matching is
done part by part as the specification describes; `cross=True`: the liberal
reading in which '*', '?' and '[!x]' may consume '/'.  Patterns on which the
two readings disagree are reported as ambiguous by the callers."""


class BadPattern(ValueError):
    pass


def parse(pattern):
    """-> list of tokens: ('lit', c) ('any1',) ('star',) ('set', neg, chars)
    ('alt', [str, ...])"""
    toks = []
    i = 0
    n = len(pattern)
    while i < n:
        c = pattern[i]
        if c == '?':
            toks.append(('any1',))
            i += 1
        elif c == '*':
            toks.append(('star',))
            i += 1
        elif c == '[':
            j = pattern.find(']', i + 1)
            if j < 0:
                raise BadPattern('unterminated [')
            body = pattern[i + 1:j]
            neg = body.startswith('!')
            if neg:
                body = body[1:]
            chars = set()
            k = 0
            while k < len(body):
                if k + 2 < len(body) and body[k + 1] == '-':
                    lo, hi = ord(body[k]), ord(body[k + 2])
                    if lo > hi:
                        raise BadPattern('reversed range')
                    chars.update(chr(x) for x in range(lo, hi + 1))
                    k += 3
                elif body[k] == '-' and k == len(body) - 1:
                    chars.add('-')      # trailing dash has no special meaning
                    k += 1
                else:
                    chars.add(body[k])
                    k += 1
            toks.append(('set', neg, frozenset(chars)))
            i = j + 1
        elif c == '{':
            j = pattern.find('}', i + 1)
            if j < 0:
                raise BadPattern('unterminated {')
            toks.append(('alt', pattern[i + 1:j].split(',')))
            i = j + 1
        elif c in ']}':
            raise BadPattern('unbalanced ' + c)
        else:
            toks.append(('lit', c))
            i += 1
    return toks


def match(pattern, address, cross=False):
    """True iff `pattern` matches `address` over its whole length."""
    toks = parse(pattern)

    def m(ti, ai):
        while ti < len(toks):
            t = toks[ti]
            k = t[0]
            if k == 'lit':
                if ai < len(address) and address[ai] == t[1]:
                    ti += 1
                    ai += 1
                    continue
                return False
            if k == 'any1':
                if ai < len(address) and (cross or address[ai] != '/'):
                    ti += 1
                    ai += 1
                    continue
                return False
            if k == 'set':
                if ai >= len(address):
                    return False
                ch = address[ai]
                ok = (ch in t[2]) != t[1]
                if ch == '/' and not cross and t[1]:
                    ok = False
                if not ok:
                    return False
                ti += 1
                ai += 1
                continue
            if k == 'alt':
                for s in t[1]:
                    if address.startswith(s, ai) and m(ti + 1, ai + len(s)):
                        return True
                return False
            if k == 'star':
                j = ai
                while True:
                    if m(ti + 1, j):
                        return True
                    if j >= len(address):
                        return False
                    if address[j] == '/' and not cross:
                        return False
                    j += 1
        return ai == len(address)

    return m(0, 0)


def verdict(pattern, address):
    """-> True / False / None (the two readings disagree, or bad pattern)."""
    try:
        a = match(pattern, address, False)
        b = match(pattern, address, True)
    except BadPattern:
        return None
    return a if a == b else None
