#!/bin/sh
# usage: run_all_seeded.sh [PATTERN]  -- regression: every kept seeded change
# (seeded/<id>/patch.diff) must still be reported by the check named in its
# meta.json "caught_by" (first word), on a scratch copy of /repo.
PAT=${1:-}
ok=0; bad=0
for d in /verif/seeded/*${PAT}*/; do
  id=$(basename $d)
  prop=$(python3 -c "import json,sys; print(json.load(open('$d/meta.json'))['caught_by'].replace(',', ' ').split()[0])")
  SCR=/tmp/sc3-allseeded-$$
  rm -rf $SCR; mkdir -p $SCR
  rsync -a --exclude .git --exclude __pycache__ /repo/ $SCR/
  if ! (cd $SCR && patch -p1 -s < $d/patch.diff); then
    echo "SEEDED $id: PATCH-FAILED"; bad=$((bad+1)); rm -rf $SCR; continue
  fi
  out=$(VERIF_REPO=$SCR VERIF_EVIDENCE_DIR=/tmp/allseeded-ev-$$ /verif/check $prop --tier quick --no-shrink 2>&1)
  rc=$?
  v=$(echo "$out" | grep -A1 "^VIOLATION" | sed -n 2p | cut -c1-110)
  if [ $rc -eq 1 ] && [ -n "$v" ]; then
    echo "SEEDED $id: CAUGHT by $prop ($v)"; ok=$((ok+1))
  else
    echo "SEEDED $id: MISSED by $prop (exit $rc)"; bad=$((bad+1))
  fi
  rm -rf $SCR /tmp/allseeded-ev-$$
done
echo "seeded changes caught: $ok, not caught: $bad"
[ $bad -eq 0 ]
