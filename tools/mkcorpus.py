#!/usr/bin/env python3
"""Hand-written scenario cases for the regression corpus
(replays/corpus/<PROP>/<name>.json).  Each is a replay file like any other
(fixed program, empty schedule tape = the least surprising schedule: keep the
baton, no latency, no fault) and must PASS on a correct tree.  Run this script
to (re)generate them; `./check PROP` replays them on every run."""

import json
import os

V = os.path.dirname(os.path.dirname(os.path.abspath(__file__)))

FF = {'policy': 'random', 'lat': 0, 'cost': 0.0, 'stall_pm': 0,
      'epoch': 'exact', 'time_yield': False, 'fault_free': True,
      'max_steps': 30000}
RR = dict(FF, policy='rr')
JIT = {'policy': 'sticky50', 'lat': 2, 'cost': 5e-6, 'stall_pm': 20,
       'stall_max': 0.01, 'epoch': 'real', 'time_yield': True,
       'fault_free': False, 'max_steps': 30000}


def task(clock, rets, kind='func', ops=None):
    return {'clock': clock, 'kind': kind,
            'script': [{'ops': (ops or []) if i == 0 else [], 'ret': r}
                       for i, r in enumerate(rets)]}


C = {}

# ---------------------------------------------------------------- C08
for ck in ('sys', 'app', 't0'):
    C[f'C08/sched-ahead-of-sleeping-head-{ck}'] = {
        'knobs': RR, 'tempos': [2], 'responders': [],
        'tasks': [task(ck, [None]), task(ck, [None])],
        'actors': [[['sched', 0, 3.7], ['sleep', 0.5], ['sched', 1, 0.25]],
                   [['sleep', 0.25], ['sched', 1, 1]]]}
C['C08/tempo-x4-while-clock-sleeps'] = {
    'knobs': JIT, 'tempos': [0.5], 'responders': [],
    'tasks': [task('t0', [None]), task('t0', [1, None])],
    'actors': [[['sched', 0, 2], ['sched', 1, 3.7], ['sleep', 0.5],
                ['tempo', 0, 2], ['sleep', 0.25], ['etempo', 0, 7.3]]]}
C['C08/three-threads-one-instant'] = {
    'knobs': RR, 'tempos': [], 'responders': [],
    'tasks': [task('sys', [None]), task('sys', [None]), task('sys', [None])],
    'actors': [[['sched_abs', 0, 1]], [['sched_abs', 1, 1]],
               [['sched_abs', 2, 1]]]}
C['C08/raise-between-equals'] = {
    'knobs': FF, 'tempos': [1], 'responders': [],
    'tasks': [task('t0', [None]), task('t0', ['raise']), task('t0', [0.5, None]),
              task('sys', ['raise', None])],
    'actors': [[['sched', 0, 1], ['sched', 1, 1], ['sched', 2, 1],
                ['sched', 3, 0.5], ['sleep', 2], ['sched', 3, 0]]]}
C['C08/clear-with-pending-then-sched'] = {
    'knobs': JIT, 'tempos': [1], 'responders': [],
    'tasks': [task(c, [None]) for c in ('sys', 'sys', 'app', 'app', 't0', 't0')],
    'actors': [[['sched', 0, 1], ['sched', 1, 2], ['sched', 2, 1],
                ['sched', 3, 2], ['sched', 4, 1], ['sched', 5, 2],
                ['sleep', 0.5], ['clear', 'sys'], ['clear', 'app'],
                ['clear', 't0'], ['sched', 0, 0.25], ['sched', 2, 0.25],
                ['sched', 4, 0.25]]]}
C['C08/stop-with-due-and-later-task'] = {
    'knobs': RR, 'tempos': [1, 2], 'responders': [],
    'tasks': [task('t0', [None]), task('t0', [None]), task('t1', [None])],
    'actors': [[['sched', 0, 0], ['sched', 1, 3.7], ['sched', 2, 1],
                ['stop', 0], ['sleep', 1], ['sched', 0, 0.5]]]}
C['C08/resched-pending-from-another-thread'] = {
    'knobs': RR, 'tempos': [], 'responders': [],
    'tasks': [task('sys', [None, None]), task('app', [None, None])],
    'actors': [[['sched', 0, 2], ['sched', 1, 2]],
               [['sleep', 0.5], ['sched', 0, 0.25], ['sched', 1, 0.25]]]}
C['C08/osc-thread-schedules'] = {
    'knobs': JIT, 'tempos': [3], 'tasks': [task('sys', [0.25, None]),
                                           task('t0', [None]),
                                           task('app', [None])],
    'responders': [[['sched', 0, 0.125], ['sched', 1, 1]],
                   [['sched', 2, 0]]],
    'actors': [[['inject', 0], ['sleep', 0.01], ['inject', 1], ['inject', 0]]]}

# ---------------------------------------------------------------- C10
KN10 = {'policy': 'random', 'lat': 4, 'cost': 5e-6, 'stall_pm': 0,
        'epoch': 'real', 'time_yield': True, 'max_steps': 30000}


def r(clock, body, quant=None, seed=None):
    return {'clock': clock, 'quant': quant, 'seed': seed, 'body': body}


C['C10/tempo-change-while-pending'] = {
    'knobs': KN10, 'perturb': 2, 'family': 0, 'prog': {
        't0': 0.5, 'clocks': [{'tempo': 1, 'beats': 0}], 'routines': [
            r('sys', [['spawnd', 2, 0.5]], seed=1),
            r('sys', [], seed=2),
            r('sys', [['spawn', 3], ['tempo', 0, 4]]),
            r('t0', [['rec'], ['msg', 5], ['wait', 1], ['rec']], seed=3)]}}
C['C10/pause-resume-before-pending-wake'] = {
    'knobs': KN10, 'perturb': 2, 'family': 0, 'prog': {
        't0': 0.5, 'clocks': [], 'routines': [
            r('sys', [['spawnd', 1, 1], ['pause', 1], ['resume', 1]], seed=1),
            r('sys', [['rec'], ['wait', 2], ['rec']])]}}
C['C10/beats-set-back-while-pending'] = {
    'knobs': KN10, 'perturb': 1, 'family': 0, 'prog': {
        't0': 0.5, 'clocks': [{'tempo': 1, 'beats': 0}], 'routines': [
            r('sys', [['wait', 0.03125], ['spawn', 1]], seed=4),
            r('t0', [['spawn', 2], ['wait', 0.015625], ['rec']], quant=[4, 0]),
            r('t0', [['beats', 0, -1]], quant=0)]}}
C['C10/seeded-families-draw'] = {
    'knobs': KN10, 'perturb': 3, 'family': 1, 'prog': {
        't0': 0.5, 'clocks': [{'tempo': 2, 'beats': 0}], 'routines': [
            r('sys', [['draw', 'rand_f'], ['spawn', 1], ['spawn', 2],
                      ['wait', 0.25], ['draw', 'choice']], seed=11),
            r('t0', [['draw', 'rrand'], ['wait', 0.5], ['draw', 'exprand']],
              quant=0, seed=12),
            r('sys', [['wait', 0.125], ['draw', 'rand_i'], ['draw', 'coin']])]}}

# ---------------------------------------------------------------- C18
KN18 = dict(JIT, max_steps=60000)
C['C18/one-shot-then-peer'] = {'knobs': KN18, 'ops': [
    ['new', 0, 'exact', '/foobar', None, None, None, True, None],
    ['new', 1, 'exact', '/foobar', None, None, None, False, None],
    ['new', 2, 'match', '/foobar', None, None, None, False, 'free'],
    ['new', 3, 'match', '/foobar', None, None, None, False, None],
    ['send', 0, 57120, ['m', '/foobar', [1]], None],
    ['send', 1, 57120, ['m', '/foo*', [2]], None],
    ['send', 0, 57120, ['m', '/foobar', [3]], ['dup']]]}
C['C18/prefix-sharing-paths'] = {'knobs': KN18, 'ops': [
    ['new', 0, 'match', '/foo', None, None, None, False, None],
    ['new', 1, 'match', '/foobar', None, None, None, False, None],
    ['new', 2, 'match', '/abc', None, None, None, False, None],
    ['new', 3, 'exact', '/ab', None, None, None, False, None],
    ['send', 0, 57120, ['m', '/foo', [1]], None],
    ['send', 0, 57120, ['m', '/[a-b]', [2]], None],
    ['send', 0, 57120, ['m', '/ab', [3]], None],
    ['send', 0, 57120, ['m', '/fo?', [4]], None]]}
C['C18/short-message-vs-template'] = {'knobs': KN18, 'ops': [
    ['new', 0, 'exact', '/a', None, None,
     [['pred', 'num'], -3, ['pred', 'pos']], False, None],
    ['new', 1, 'exact', '/a', None, None, None, False, None],
    ['new', 2, 'match', '/a', None, None, [7, 7], False, None],
    ['new', 3, 'match', '/a', None, None, None, False, None],
    ['send', 0, 57120, ['m', '/a', [13]], None],
    ['send', 0, 57120, ['m', '/a', [7]], None],
    ['send', 0, 57120, ['m', '/a', [7, 7]], None]]}
ops = [['new', 0, 'exact', '/x/y', None, None, None, False, None]]
for val in (-4, -8, -1, 0, 2 ** 31 - 1, 'len+4', 3, 5, -16, 1 << 20):
    ops.append(['send', 0, 57120,
                ['b', 'future', [['m', '/x/y', [1, -3, 'yy']],
                                 ['m', '/x/y', [2]]]], ['len', val]])
C['C18/element-length-tampering'] = {'knobs': KN18, 'ops': ops}
C['C18/disable-inside-own-callback'] = {'knobs': KN18, 'ops': [
    ['new', 0, 'exact', '/a/b', None, None, None, False, 'disable'],
    ['new', 1, 'exact', '/a/b', None, None, None, False, None],
    ['send', 0, 57120, ['m', '/a/b', [1]], None],
    ['send', 0, 57120, ['m', '/a/b', [2]], None],
    ['enable', 0],
    ['send', 0, 57120, ['m', '/a/b', [3]], None]]}
C['C18/registries'] = {'knobs': KN18, 'ops': [
    ['sa', 'ServerTree', 'add', 0], ['sa', 'ServerTree', 'add', 1],
    ['sa', 'ServerTree', 'remove', 0], ['sa', 'ServerTree', 'run', 0],
    ['sa', 'StartUp', 'add', 2], ['sa', 'StartUp', 'add', 3],
    ['sa', 'StartUp', 'run', 0], ['sa', 'StartUp', 'remove', 2],
    ['sa', 'StartUp', 'run', 0],
    ['nc', 'register', 0, 'm1', 0], ['nc', 'register', 0, 'm1', 2],
    ['nc', 'register', 0, 'm1', 1], ['nc', 'notify', 0, 'm1', 0],
    ['nc', 'unregister', 0, 'm1', 2], ['nc', 'notify', 0, 'm1', 0]]}

# ---------------------------------------------------------------- C17
KN17 = dict(JIT, max_steps=60000, f6_pm=0)
inner = [['synth', 0, 'default', [['freq', 440]], None, 'addToHead', True],
         ['nset', 0, [['amp', 0.5]], False],
         ['buf', 1, 64, 1], ['nrun', 0, False], ['nfree', 0]]
ops = []
for j in range(len(inner) + 1):
    ops.append(['bind', inner, j])
ops.append(['bind', inner, None])
C['C17/bind-raising-at-each-position'] = {
    'knobs': KN17, 'ops': ops, 'where': 'routine', 'mode': 'rt',
    'client_id': 0}
C['C17/free-all-after-new-consecutive'] = {
    'knobs': KN17, 'where': 'main', 'mode': 'rt', 'client_id': 0, 'ops': [
        ['buf', 0, 1, 2], ['bufcons', 1, 3, 64, 2], ['bfreeall'],
        ['buf', 5, 64, 1]]}
C['C17/double-free-client-3'] = {
    'knobs': KN17, 'where': 'main', 'mode': 'rt', 'client_id': 3, 'ops': [
        ['buf', 2, 1, 2], ['bfree', 2], ['bfree', 2], ['cbus', 3, 2],
        ['busfree', 'cbus', 3], ['busfree', 'cbus', 3], ['abus', 4, 2],
        ['busfree', 'abus', 4], ['cbus', 5, 2], ['buf', 6, 64, 1]]}
C['C17/add-actions-and-targets-nrt'] = {
    'knobs': KN17, 'where': 'routine', 'mode': 'nrt', 'client_id': 1, 'ops': [
        ['group', 0, None, 'addToTail', False],
        ['group', 1, ['obj', 0], 'addBefore', True],
        ['synth', 2, 'default', [['freq', [440, 550]], [2, 0.5]],
         ['obj', 0], 'addToHead', True],
        ['synth', 3, 'test', [], ['obj', 2], 'addAfter', False],
        ['synth', 4, 'fm', [['amp', 0.25]], 'server', 4, True],
        ['nmove', 2, 'before', 3], ['nmove', 3, 'tail', 0],
        ['nrelease', 2, 2], ['nsetn', 3, 'freq', [1, 2, 3]],
        ['nfill', 4, 0, 3, 0.5], ['nfree', 4]]}

# ---------------------------------------------------------------- C14
KN14 = dict(JIT, max_steps=60000)
C['C14/rest-in-pbind'] = {
    'kind': 'pattern', 'knobs': KN14, 'clock': 'sys', 'mute': False,
    'pats': [['bind', {'degree': [0, 2, 4, 5], 'amp': 0.2,
                       'dur': [0.5, ['rest', 0.25], 0.5, 1]}, 'default']]}
C['C14/pdur-over-pbind'] = {
    'kind': 'pattern', 'knobs': KN14, 'clock': 'tempo', 'mute': False,
    'pats': [['dur', 1.25, ['bind', {'midinote': [69, 70, 71, 72],
                                     'dur': [1, 1.5], 'stretch': 2},
                            'default']],
             ['dur', 3, ['bind', {'degree': [4, 5, 6], 'dur': [0.25, 0.25]},
                         'test']]]}
C['C14/ppar-children-ending-at-different-times'] = {
    'kind': 'pattern', 'knobs': KN14, 'clock': 'sys', 'mute': False,
    'pats': [['par', [
        ['bind', {'degree': [0, 1], 'dur': [0.25, 0.25]}, 'default'],
        ['bind', {'midinote': [60, 62, 64, 65], 'legato': 0.1,
                  'dur': [0.5, 0.5, 0.125, 1]}, 'nogate'],
        ['delta', 0.5, ['bind', {'freq': [220, 330], 'dur': [1, 1]},
                        'test']]]]]}
C['C14/explicit-scale-and-keys'] = {
    'kind': 'single', 'knobs': KN14, 'clock': 'sys', 'events': [
        {'note': 0, 'scale': 'minor', 'instrument': 'default'},
        {'degree': -8, 'scale': 'penta', 'mtranspose': 1, 'octave': 4,
         'db': -6, 'legato': 1.5, 'instrument': 'default'},
        {'midinote': 61.5, 'ctranspose': 12, 'harmonic': 2, 'detune': -3,
         'velocity': 64, 'dur': 2, 'stretch': 0.5, 'instrument': 'nogate'},
        {'freq': 330.5, 'amp': 0.05, 'pan': -1, 'out': 2, 'sustain': 3,
         'add_action': 'addToTail', 'instrument': 'test'}]}
C['C14/tunings-with-root-and-stretched-octave'] = {
    'kind': 'single', 'knobs': KN14, 'clock': 'sys', 'events': [
        {'degree': 7, 'octave': 6, 'root': 2, 'scale': 'bp', 'harmonic': 3,
         'dur': 0.125, 'legato': 1.5, 'pan': 0.5, 'instrument': 'default'},
        {'degree': 2, 'mtranspose': 3, 'root': 2, 'scale': 'et19',
         'instrument': 'default'},
        {'note': 5, 'root': -1, 'gtranspose': 1, 'scale': 'et7',
         'instrument': 'default'},
        {'degree': -8, 'gtranspose': 1, 'octave': 3, 'scale': 'bp',
         'harmonic': 0.5, 'db': -20, 'dur': 1.5, 'instrument': 'default'}]}
C['C11/ancestor-ops-from-nested-routine'] = {
    'kind': 'seq', 'routines': [
        {'gen': True, 'inval': False,
         'steps': [['y', 1], ['nest', 1], ['y', 2], ['y', 3]]},
        {'gen': True, 'inval': False,
         'steps': [['anc', 'stop', 0], ['nest', 2], ['y', 'x']]},
        {'gen': False, 'inval': False,
         'steps': [['anc', 'reset', 1], ['anc', 'pause', 0]]}],
    'ops': [['next', 0, None], ['next', 0, None], ['next', 0, None],
            ['next', 0, None], ['next', 0, None], ['next', 1, None]]}

# ---------------------------------------------------------------- C20
KN20 = {'policy': 'random', 'lat': 0, 'cost': 0.0, 'stall_pm': 0,
        'epoch': 'exact', 'time_yield': False, 'max_steps': 400000,
        'line_manual': True, 'line_mean': 20}
C['C20/two-builders-one-fails-mid-graph'] = {
    'mode': 'rt', 'knobs': KN20, 'post': ['sum', 'wrap'], 'warm': True,
    'threads': [[['build', 'many', None, 0], ['build', 'fft', None, 0]],
                [['build', 'sum', 'func', 3], ['build', 'pan_env', 'rate', 0],
                 ['build', 'controls', None, 0]]]}
C['C20/keyboard-interrupt-and-wrap'] = {
    'mode': 'nrt', 'knobs': dict(KN20, line_mean=1000), 'post': ['wrap'],
    'warm': False,
    'threads': [[['build', 'wrap', 'kbd', 2], ['build', 'wrap', None, 0],
                 ['build', 'feedback', 'name', 0], ['desc', 'demand'],
                 ['twice', 'shared']]]}

# ---------------------------------------------------------------- C16
C['C16/coalesce-on-client-offset'] = {
    'cross': True, 'other_client': 3,
    'cfg': {'max_logins': 32, 'client_id': 11, 'control_buses': 64,
            'audio_buses': 1024, 'buffers': 64, 'io': [2, 2],
            'reserved': [0, 0, 0], 'initial_node_id': 5000},
    'ops': [['alloc', 2, 1], ['free', 2, 0], ['alloc', 2, 2], ['free', 2, 0],
            ['alloc', 1, 2], ['alloc', 1, 3], ['alloc', 1, 'all'],
            ['free', 1, 0], ['free', 1, 0], ['alloc', 1, 'all'],
            ['dfree', 1, 0], ['free_none', 0], ['free_unknown', 0, 17],
            ['alloc', 0, 'over'], ['alloc', 0, 'half'], ['alloc', 0, 'half'],
            ['alloc', 0, 1], ['node_wrap', 5], ['node', 10]]}

# ---------------------------------------------------------------- C09
C['C09/remove-then-peek-largest-and-readd-head'] = {
    'kind': 'direct', 'ntasks': 4, 'task_kinds': [0, 1, 2, 3], 'ops': [
        ['add', 1.5, 0], ['add', 1.5, 1], ['add', 0, 2], ['add', 3.25, 3],
        ['remove', 3], ['peek', False], ['peek', True], ['add', 2, 2],
        ['peek', True], ['iter'], ['pop'], ['pop'], ['empty'], ['add', 1.5, 1],
        ['pop'], ['pop'], ['pop'], ['empty'], ['clear'], ['peek', True]]}

# ---------------------------------------------------------------- C11
C['C11/stop-from-inside-and-nested-exception'] = {
    'kind': 'seq', 'routines': [
        {'gen': True, 'inval': True,
         'steps': [['tt'], ['self', 'stop'], ['y', 1], ['nest', 1], ['y', 2]]},
        {'gen': True, 'inval': False,
         'steps': [['tt'], ['nest', 2], ['y', 'x']]},
        {'gen': True, 'inval': False,
         'steps': [['tt'], ['self', 'reset'], ['raise']]}],
    'ops': [['next', 0, None], ['next', 0, 'v'], ['next', 0, None],
            ['next', 1, None], ['next', 2, None], ['reset', 0],
            ['next', 0, None], ['pause', 0], ['next', 0, None],
            ['resume', 0], ['next', 0, None], ['stop', 0], ['next', 0, None]]}
C['C11/signal-while-false-then-true'] = {
    'kind': 'sync', 'knobs': JIT, 'prog': {
        't0': 0.5, 'clocks': [{'tempo': 2, 'beats': 0}], 'routines': [
            r('sys', [['spawn', 1], ['spawn', 2], ['wait', 0.25], ['rec']]),
            r('sys', [['cwait', 0], ['rec'], ['wait', 0.5], ['rec'],
                      ['fget', 0], ['rec']]),
            r('t0', [['cwait', 0], ['rec'], ['fget', 0]], quant=0)]},
    'actors': [[['sleep', 1.0], ['csignal', 0], ['sleep', 0.25],
                ['cset', 0, True], ['csignal', 0], ['sleep', 1.0],
                ['fset', 0, 42], ['fset', 0, 43]],
               [['sleep', 1.125], ['cunhang', 0]]]}

for key, case in C.items():
    prop, name = key.split('/')
    d = os.path.join(V, 'replays', 'corpus', prop)
    os.makedirs(d, exist_ok=True)
    with open(os.path.join(d, f'hand-{name}.json'), 'w') as f:
        json.dump({'property': prop, 'seed': 0, 'case': case, 'sched': [],
                   'note': 'hand-written scenario; must pass'}, f, indent=1)
print(len(C), 'corpus files written')
