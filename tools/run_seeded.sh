#!/bin/sh
# usage: run_seeded.sh NAME PROP [PROP...]  -- run quick checks against /verif/seeded/NAME/patch.diff on a scratch copy of /repo
NAME=$1; shift
SCR=/tmp/sc3-seeded-$$
rm -rf $SCR; mkdir -p $SCR
rsync -a --exclude .git --exclude __pycache__ /repo/ $SCR/
(cd $SCR && patch -p1 -s < /verif/seeded/$NAME/patch.diff) || { echo "patch failed"; exit 1; }
for Q in "$@"; do
  out=$(VERIF_REPO=$SCR VERIF_EVIDENCE_DIR=/tmp/seeded-ev-$$ /verif/check $Q --tier quick --no-shrink 2>&1 | grep -v "^WARNING")
  echo "$NAME / $Q: $(echo "$out" | tail -1)"
  echo "$out" | grep -A1 "^VIOLATION" | head -4 | cut -c1-300
done
rm -rf /tmp/seeded-ev-$$ $SCR
