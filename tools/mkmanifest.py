import json
CHECKS = {
 'C05': dict(
   text="Each case is one generated program of nested routines (SystemClock, TempoClocks of arbitrary tempo, AppClock in NRT) executed by real sc3 in four worlds - RT fault-free, RT under two different seeded fault/schedule tapes (wake-up latency, execution cost, stalls, PCT/random/sticky/round-robin scheduling), NRT - and compared with an independent logical-time model (1e-9) and bit-exactly across the RT schedules; plus child-start, current-thread and NRT monotonicity oracles. Exploration, not proof.",
   note="Trusts the shims; the model re-implements the documented affine tempo map and grid; a seconds->beats->seconds round trip may move a child one ulp before its parent (tolerated at 1e-9).",
   tech="deterministic simulation with fault injection (same program under several seeded schedules/fault tapes, differential + reference model)"),
 'C07': dict(
   text="Generated programs of routines and main-thread code sending messages and nested bundles with arbitrary latencies, run by real sc3 in the RT world under faults (datagrams captured at the socket seam, decoded by an independent strict OSC codec, optionally looped back to OscFunc responders) and in the NRT world (score list, raw form, tail marker against a model). Exploration, not proof.",
   note="Trusts the shims and the independent codec; main-thread sends are checked against the virtual-time interval of the call; nested-bundle refusal with an 'immediate' parent and sub is treated as unspecified.",
   tech="deterministic simulation with fault injection (captured wire traffic vs timetag model; NRT score vs model)"),
 'C09': dict(
   text="Model-based history checking of the real TaskQueue against a sorted-list reference (add, re-add, remove, pop, peek smallest/largest, empty, clear, iteration; ties, +-inf, identity/equality-keyed tasks), plus shadow monitors that mirror every live queue (clock queues, NRT ClockScheduler, OscScore) inside simulated RT runs with concurrent schedulers and inside NRT runs. Exploration, not proof.",
   note="Direct histories involve no scheduler (stated in the evidence); which of several entries sharing the largest time peek(False) returns is treated as unspecified.",
   tech="deterministic simulation harness: tape-generated operation histories and shadow monitors in simulated runs vs reference model"),
 'C10': dict(
   text="Each case is one generated program (routines on SystemClock/TempoClocks, tempo and beats changes, pause/resume/stop, Condition and FlowVar, seeded random draws through every builtin kind, bundle sends) executed by real sc3 in the RT world under bounded seeded jitter and scheduling, in the NRT world twice (byte-identical scores required) and in the NRT world with unrelated generators perturbed; RT and NRT per-routine traces (logical times, values, bundles) must agree for programs that are logically well-synchronised (no two events on different clocks touching the same state within 1/128 s, no overdue task), the others are counted and skipped. Exploration, not proof.",
   note="Well-synchronisedness is decided from the NRT timeline; RT jitter is bounded to 2 ms + 5 us per step so that physical order follows logical order; AppClock is excluded (physical by design).",
   tech="deterministic simulation with fault injection (differential RT-under-jitter vs NRT vs NRT-perturbed runs of one program)"),
 'C11': dict(
   text="Three workloads: (seq) tape-generated histories of next/send, play, pause, resume, stop, reset on routines with scripted bodies (yield numbers/other values, return, raise, YieldAndReset, AlwaysYield, StopStream, nested routines, self-directed pause/stop/reset) checked op by op against a sequential state-machine model incl. current-thread/parent-chain restoration; (sync) real sc3 in the simulated RT world under faults with routines waiting on Conditions/FlowVars while the driver, user threads and other routines signal, unhang and set tests/values - every continuation must be justified, happen exactly once, not be missing at quiescence, and no routine may resume before its yielded delay; (ctl) pause/resume/stop applied concurrently to playing routines - transition table at the linearisation point, no body step while Paused/Done. Exploration, not proof.",
   note="Concurrent operations are linearised by holding the re-entrant main lock around each harness operation; seq cases involve no scheduler.",
   tech="deterministic simulation with fault injection (concurrent op histories on simulated clocks vs state-machine/condition models; sequential model-based histories)"),
 'C20': dict(
   text="1-4 builder threads build drawn multisets of a 14-function corpus concurrently (some builds failing: error in the graph function, failed input check, writer refusing the name, KeyboardInterrupt), interleaved with SynthDesc reads that share the build lock/global context and with tape-driven heap perturbation, executed by real sc3 (RT and NRT mode) under the kernel with LINE-level pre-emption (sys.monitoring) inside sc3/synth/* and sc3/base/main.py; every successful build must equal the pristine bytes from a separate fresh process, failing builds raise to their caller only, no residue (global context, lock, unit generators created outside) when nothing builds, later sequential builds equal pristine, no builder parked forever; plus the whole corpus built twice in fresh interpreters under 3 (quick) / 8 (thorough) PYTHONHASHSEED values with ASLR on, in both modes. Exploration, not proof.",
   note="Pre-emption at LINE events only; violations caused by address-dependent iteration order are confirmed by repeated replay instead of by digest equality.",
   tech="deterministic simulation with fault injection (line-level pre-emptive scheduling of concurrent/failing builds via sys.monitoring; fresh-interpreter hash-seed sweep)"),
 'C17': dict(
   text="Tape-generated histories of Synth/Group/ParGroup creation (every add action, default/server/group/node targets, list and dict arguments, bus and buffer objects as values), set/setn/fill/map/run/release/move/free/trace, Buffer (single, consecutive, zero/set/setn/fill, free, double free, free_all) and Bus (alloc, set/setn, free, double free) operations, inside and outside `with s.bind():` blocks with exceptions injected at every position (F9) and send errors (F6), issued from the main thread or from a routine, for several client ids, executed by real sc3 in the simulated RT world against a fake scsynth (and in the NRT world against the score). Oracles: command-reference grammar of everything the server receives, id ledger fed by monitors on the real allocators, per-operation expected commands from an independent protocol model, freed ids returned to the allocator, bind-block atomicity/ordering/timetag/address restoration. Exploration, not proof.",
   note="The fake server's grammar is a transcription of the Server Command Reference; stale Buffer objects after Buffer.free_all and members of a consecutive allocation are not used individually (documented limitations); after an injected send error only wire-level checks continue.",
   tech="deterministic simulation with fault injection (op histories with injected exceptions/send errors against a simulated peer that validates the protocol)"),
 'C18': dict(
   text="Real sc3 receive path (UDP receive threads on two simulated ports -> _osclib decoder -> SystemClock dispatch -> dispatchers/matchers -> responders) in the simulated RT world under scheduling/timing faults, driven by tape-generated histories of responder creation, enable/disable/free/one_shot/function replacement, CmdPeriod, SystemAction/ServerAction/NotificationCenter add/remove/run interleaved with datagrams from simulated remote endpoints: valid messages and nested bundles with literal and pattern addresses sharing prefixes, and F5-mutated datagrams (truncation, bit flips, tampered element lengths incl. negative, junk, empty, trailing bytes, duplicates). Oracles: responder-registry model, textbook OSC pattern matcher (both readings, disagreements counted as ambiguous), strict independent decoder, callback arguments, receiver liveness incl. a deterministic LINE-event hang detector, probe message after every faulty datagram. Exploration, not proof.",
   note="Registry operations are issued at quiescent points (sequentially consistent with dispatches); datagrams the library accepts but the strict decoder rejects are counted (lenient-accept), not judged; order across the two default dispatchers is unconstrained.",
   tech="deterministic simulation with fault injection (network fault injection on simulated UDP + registry op histories vs reference models)"),
 'C12': dict(
   text="Generated programs of routines that read and change tempo, beats and meter of 1-3 TempoClocks (tempo changes landing while the clock thread sleeps), query next_time_on_grid/next_bar/bar/beat_in_bar/conversions and play children with quants, run by real sc3 in RT fault-free, RT under seeded faults and NRT; round-trip, continuity, congruence/earliest, bar and meter laws at every query/change, beats-advance and quantised child start from the execution trace, whole trace vs affine-map model for programs without map changes. Exploration, not proof.",
   note="Reference points within 1e-7 of a grid point are accepted on either side; what a map change does to pending wake-ups is left to C10.",
   tech="deterministic simulation with fault injection (histories of tempo/beats/meter changes from routines on simulated clocks; law checks + reference model)"),
 'C14': dict(
   text="Event programs - single events with drawn subsets of pitch/amplitude/duration/server keys (one main pitch key with its own modifiers, scales, db/velocity, dur/stretch/legato, explicit delta/sustain, add action, group, instruments with and without gate) and Pbind/Pmono/Ppar/Pchain/Pdur/Pdelta compositions over finite value lists with rests - played from a routine by real sc3 in the NRT world (score) and in the simulated RT world against the fake scsynth under seeded scheduling/timing faults, on SystemClock and on a TempoClock of tempo 1. Oracle: independent key-chain model (SuperCollider event documentation) + timeline model -> expected bundles: one /s_new per note event at logical time + latency with instrument, fresh node id in the client range, add action, group and exactly the controls the event defines; one gate-off later by sustain iff the instrument has a gate; nothing for rests; nothing else; key lookups; total duration of the players. Exploration, not proof.",
   note="The key-chain half is input-style (reach = drawn combinations); a pitch modifier is only generated next to the main key the library associates it with (ctranspose with a degree, modifiers without any pitch key: unspecified); Pmono is covered at top level, in Ppar and after Pdelta (first event not a rest), not its articulate variant.",
   tech="deterministic simulation with fault injection (event programs on simulated clocks vs fake server; timeline + key-chain reference models)"),
 'C16': dict(
   text="Model-based history checking of the real bus/buffer/node-id allocators of a Server configured per case (sizes, reserved offsets, max_logins, client id -> real partition arithmetic) against an interval-set reference: safety (inside partition, no overlap), completeness ('no space' only when no free run exists), misuse tolerance (double free, free(None), unknown address), cross-client disjointness by exhaustion, node-id window/wrap-around; the allocator's random tie-break is a tape draw. Exploration, not proof.",
   note="No scheduler involved (stated in the evidence); node-id wrap-around reached by setting the counter near the top of the window.",
   tech="deterministic simulation harness: tape-generated alloc/free/fault histories with controlled randomness vs interval-set model"),
 'C08': dict(
   text="Seeded search over thread interleavings, wake-up latencies, execution cost, stalls and raising tasks of real sc3 clocks (SystemClock, AppClock, 0-3 TempoClocks, OSC receive thread, user threads) under a deterministic baton kernel with virtual time; oracles: exactly-once, never-early, quiescence invariant (no lost wake-up / oversleep), exact lateness in fault-free runs, order with FIFO ties, reschedule base, clear/stop, error recovery. Exploration, not proof.",
   note="Trusts the threading/time/socket shims to implement CPython semantics; pre-emption at synchronisation points only; TempoClock beat<->second conversion is taken from the clock (checked by C12).",
   tech="deterministic simulation with fault injection (baton-passing scheduler over real threads, virtual time, seeded tape, shadow priority-queue model)"),
}
m = json.load(open('MANIFEST.json'))
m['checks'] = []
for pid in sorted(CHECKS):
    c = CHECKS[pid]
    m['checks'].append({
        'property_id': pid,
        'quick_cmd': f'./check {pid} --tier quick',
        'thorough_cmd': f'./check {pid} --tier thorough',
        'evidence_file': f'evidence/{pid}.json',
        'replay_cmd_template': f'./check {pid} --replay {{path}}',
        'engine': 'sim',
        'level_claimed': {'category': 'exploration', 'text': c['text'], 'design_ref': f'DESIGN.md section 3 ({pid})'},
        'level_note': c['note'],
        'technique': c['tech'],
    })
m['engines'][0]['serves_properties'] = sorted(CHECKS)
claimed = set(CHECKS)
json.dump(m, open('MANIFEST.json', 'w'), indent=1)
