import json
CHECKS = {
 'C08': dict(
   text="Seeded search over thread interleavings, wake-up latencies, execution cost, stalls and raising tasks of real sc3 clocks (SystemClock, AppClock, 0-3 TempoClocks, OSC receive thread, user threads) under a deterministic baton kernel with virtual time; oracles: exactly-once, never-early, quiescence invariant (no lost wake-up / oversleep), exact lateness in fault-free runs, order with FIFO ties, reschedule base, clear/stop, error recovery. Exploration, not proof.",
   note="Trusts the threading/time/socket shims to implement CPython semantics; pre-emption at synchronisation points only; TempoClock beat<->second conversion is taken from the clock (checked by C12).",
   tech="deterministic simulation with fault injection (baton-passing scheduler over real threads, virtual time, seeded tape, shadow priority-queue model)"),
}
m = json.load(open('MANIFEST.json'))
m['checks'] = []
for pid in sorted(CHECKS):
    c = CHECKS[pid]
    m['checks'].append({
        'property_id': pid,
        'quick_cmd': f'./check {pid} --tier quick',
        'thorough_cmd': f'./check {pid} --tier thorough',
        'evidence_file': f'evidence/{pid}.json',
        'replay_cmd_template': f'./check {pid} --replay {{path}}',
        'engine': 'sim',
        'level_claimed': {'category': 'exploration', 'text': c['text'], 'design_ref': f'DESIGN.md section 3 ({pid})'},
        'level_note': c['note'],
        'technique': c['tech'],
    })
m['engines'][0]['serves_properties'] = sorted(CHECKS)
claimed = set(CHECKS)
json.dump(m, open('MANIFEST.json', 'w'), indent=1)
