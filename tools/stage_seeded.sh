#!/bin/sh
# usage: stage_seeded.sh PROP NAME [extra props]  -- a sub-agent left its change uncommitted in /tmp/wt-PROP and
# its demonstration as /tmp/wt-PROP/demo_PROP.py: stage both as WT/SEEDED/ and run eval_seeded.sh
# (run these one at a time: the baseline suite's socket tests collide when two suites run side by side)
P=$1; NAME=$2; shift 2
WT=/tmp/wt-$P
mkdir -p $WT/SEEDED
git -C $WT diff -- sc3 > $WT/SEEDED/patch.diff
cp $WT/demo_$P.py $WT/SEEDED/demo.py
grep -q "sys.path.insert(0, '$WT')" $WT/SEEDED/demo.py || sed -i "1i import sys; sys.path.insert(0, '$WT')" $WT/SEEDED/demo.py
exec /verif/tools/eval_seeded.sh $P $WT $NAME "$@"
