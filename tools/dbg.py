import sys, json, os, importlib
sys.path.insert(0, '/verif')
import warnings; warnings.simplefilter('ignore')
from sim import world, tape as T
world.import_sc3()
rp = json.load(open(sys.argv[1]))
prop = importlib.import_module('props.' + rp['property'].lower())
class Ctx:
    def emit(self, res):
        print(json.dumps(res, indent=1, default=repr)[:6000]); os._exit(0)
res = prop.run_case(rp['case'], T.Tape(replay=rp['sched']), Ctx())
Ctx().emit(res)
