#!/bin/sh
# usage: seedsweep.sh PROP FROM TO [extra args]  -- runs the quick check under several VERIF_SEED values
P=$1; A=$2; B=$3; shift 3
for s in $(seq $A $B); do
  out=$(VERIF_SEED=$s VERIF_EVIDENCE_DIR=/tmp/sweep-ev-$$ /verif/check $P --tier quick "$@" 2>&1)
  echo "seed $s: $(echo "$out" | tail -1)"
  echo "$out" | grep -A1 "^VIOLATION\|^HARNESS" | head -6
done
rm -rf /tmp/sweep-ev-$$
