#!/bin/sh
# usage: eval_seeded.sh PROP WT NAME [extra props to also run]
# Confirms a seeded change produced in scratch worktree WT (change applied
# there, deliverables in WT/SEEDED) and runs the checks against it.
P=$1; WT=$2; NAME=$3; shift 3
OUT=/verif/seeded/$NAME
mkdir -p $OUT
cp $WT/SEEDED/patch.diff $WT/SEEDED/demo.py $WT/SEEDED/README.md $OUT/ 2>/dev/null
sed -i "s#$WT#/repo#g" $OUT/demo.py
echo "== 1. patch applies to /repo?"
git -C /repo apply --check $OUT/patch.diff && echo yes || { echo NO; exit 1; }
# the worktree is brought to exactly HEAD + patch.diff (git stash is shared
# between worktrees of one repository and must not be used here)
(cd $WT && git checkout -q -- sc3 && git apply SEEDED/patch.diff) || { echo "cannot re-apply patch in worktree"; exit 1; }
echo "== 2. baseline suite in the worktree (change applied)"
(cd $WT && git diff --stat -- sc3 | tail -1; timeout 900 /venv/bin/python -m pytest -q -p no:cacheprovider --timeout=900 --continue-on-collection-errors 2>&1 | tail -1)
echo "== 3. demo with the change (expect failure)"
(cd $WT && timeout 120 /venv/bin/python SEEDED/demo.py >/tmp/demo_with.log 2>&1; echo "exit $?"; tail -2 /tmp/demo_with.log)
echo "== 4. demo without the change (expect pass)"
(cd $WT && git checkout -q -- sc3 && timeout 120 /venv/bin/python SEEDED/demo.py >/tmp/demo_without.log 2>&1; echo "exit $?"; tail -1 /tmp/demo_without.log; git apply SEEDED/patch.diff)
echo "== 5. checks against the change (scratch copy of /repo with the patch applied)"
SCR=/tmp/sc3-seeded-$$
rm -rf $SCR; mkdir -p $SCR
rsync -a --exclude .git --exclude __pycache__ /repo/ $SCR/
(cd $SCR && patch -p1 -s < $OUT/patch.diff) || { echo "patch failed on the copy"; exit 1; }
for Q in $P "$@"; do
  out=$(VERIF_REPO=$SCR VERIF_EVIDENCE_DIR=/tmp/seeded-ev-$$ /verif/check $Q --tier quick --no-shrink 2>&1 | grep -v "^WARNING")
  echo "$Q: $(echo "$out" | tail -1)"
  echo "$out" | grep -A1 "^VIOLATION" | head -4 | cut -c1-300
done
rm -rf /tmp/seeded-ev-$$ $SCR
