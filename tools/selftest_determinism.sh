#!/bin/sh
# Determinism proof: the event-log digest of run seed s must not depend on
# the interpreter instance, the hash seed, ASLR, or what the parent process
# did before.  usage: selftest_determinism.sh [N] [PROPS...]
N=${1:-40}; shift 2>/dev/null
PROPS="${@:-C05 C07 C08 C09 C10 C11 C12 C14 C16 C17 C18 C20}"
rc=0
for P in $PROPS; do
  a=$(/verif/check $P --digests $N 2>/dev/null | tail -1)
  b=$(VERIF_HASHSEED=12345 VERIF_NO_SETARCH=1 /verif/check $P --digests $N --warmup 20 2>/dev/null | tail -1)
  c=$(VERIF_HASHSEED=random VERIF_NO_SETARCH=1 /verif/check $P --digests $N --warmup 7 2>/dev/null | tail -1)
  if [ "$a" = "$b" ] && [ "$a" = "$c" ] && [ -n "$a" ]; then
    echo "DETERMINISM $P: ok ($N seeds x 3 interpreter configurations)"
  else
    echo "DETERMINISM $P: MISMATCH"; rc=1
    python3 - "$a" "$b" "$c" <<'PY'
import sys, json
try:
    a, b, c = [json.loads(x) for x in sys.argv[1:4]]
    for k in a:
        if not (a[k] == b.get(k) == c.get(k)):
            print('  seed', k, a[k], b.get(k), c.get(k))
except Exception as e:
    print('  unparsable output', e, [x[:100] for x in sys.argv[1:4]])
PY
  fi
done
exit $rc
