"""C11 - routines, conditions and flow variables obey their state machine.

Three kinds of case:
 seq   op histories (next/send, play, pause, resume, stop, reset) applied from
       the driver to un-played routines whose scripted bodies yield numbers
       and other values, return, raise, raise YieldAndReset / AlwaysYield /
       StopStream, run nested routines and try to pause/stop/reset
       themselves or, from a nested routine, a routine that is running them; checked op by op against a sequential model, together
       with the restoration of the library's current thread.
 sync  RT world under faults: routines on clocks wait on Conditions and
       FlowVars while the driver, user threads and other routines signal,
       unhang, set tests and values; every continuation must be justified by
       a signal issued while the test was true (or an unhang / a value),
       happen exactly once, and not be missing at quiescence.
 ctl   RT world under faults: pause / resume / stop applied concurrently to
       routines that play on clocks; transition table at the linearisation
       point (ops hold the main lock) and no body step while Paused / Done.
"""

import hashlib

from sim import subrun as S
from . import common as C
from . import rprog
from . import rworlds as W

ID = 'C11'
QUICK_RUNS = 1500
THOROUGH_SECONDS = 480

COMPONENTS = {
    'real': 'sc3 Routine/TimeThread/Condition/FlowVar, clocks, RtMain/NrtMain',
    'stub': 'threading primitives, time, socket (RT cases); nothing (seq)'}
ASSUMPTIONS = [
    'seq cases involve no scheduler (model-based history check driven by the '
    'tape); sync/ctl cases linearise concurrent operations by holding the '
    're-entrant main lock around each harness operation']


# ============================================================ generation

def scenario_stopped_waiter(tp):
    """Directed template: two routines wait on one Condition, the second on
    a TempoClock that is stopped meanwhile; signalling raises half way
    (ClockNotRunning).  The first routine then waits on another Condition
    that never holds: a later signal on the first Condition must not wake
    it again."""
    d = tp.choice([0.25, 0.5, 1])
    # (which of the two waiters comes first in the waiting list: a waiter
    # behind the one whose clock is stopped is signalled all the same)
    order = [1, 2] if tp.draw(2) else [2, 1]
    prog = {'t0': rprog.T0, 'clocks': [{'tempo': tp.choice([1, 2]),
                                        'beats': 0}],
            'routines': [
                {'clock': 'sys', 'quant': None, 'seed': None,
                 'body': [['spawn', order[0]], ['wait', 1 / 64],
                          ['spawn', order[1]]]},
                {'clock': 'sys', 'quant': None, 'seed': None,
                 'body': [['rec'], ['cwait', 0], ['rec'], ['wait', d],
                          ['rec'], ['cwait', 1], ['rec']]},
                {'clock': 't0', 'quant': 0, 'seed': None,
                 'body': [['rec'], ['cwait', 0], ['rec']]}]}
    drv = [['sleep', 1.0], ['stopclock', 0], ['sleep', 0.25],
           ['cset', 0, True], ['csignal', 0], ['sleep', 2 * d + 0.5],
           ['csignal', 0], ['sleep', 0.25], ['cunhang', 0]]
    return prog, [drv]


def scenario_deep_embed(tp):
    """Directed template: a routine played on a clock embeds a routine that
    embeds a routine (...) whose innermost one waits on a Condition or reads
    a FlowVar: however deep, it is the played routine that is parked and
    resumed."""
    depth = 3 + tp.draw(2)
    clock = tp.choice(['sys', 't0'])
    routines = [{'clock': 'sys', 'quant': None, 'seed': None,
                 'body': [['spawn', 1], ['wait', 4.0], ['rec']]}]
    for i in range(1, depth + 1):
        if i < depth:
            body = [['rec'], ['embed', i + 1], ['rec'], ['wait', 0.25],
                    ['rec']]
        else:
            body = [['rec'], tp.choice([['cwait', 0], ['fget', 0]]), ['rec'],
                    ['wait', 0.125], ['rec']]
        routines.append({'clock': clock, 'quant': 0 if clock == 't0' else None,
                         'seed': None, 'body': body})
    prog = {'t0': rprog.T0, 'clocks': [{'tempo': tp.choice([1, 2]),
                                        'beats': 0}],
            'routines': routines}
    drv = [['sleep', 1.0], ['cset', 0, True], ['csignal', 0],
           ['fset', 0, 7], ['sleep', 1.0], ['csignal', 0]]
    return prog, [drv]


def gen_case(tp, tier):
    kind = tp.choice(['seq', 'seq', 'sync', 'ctl'])
    if kind == 'seq':
        return gen_seq(tp, tier)
    if kind == 'sync' and tp.draw(8) == 0:
        prog, actors = scenario_deep_embed(tp)
        kn = C.gen_knobs(tp, fault_free_pm=150, allow_big_lat=False)
        return {'kind': 'sync', 'prog': prog, 'actors': actors, 'knobs': kn,
                'scenario': 'deep-embed'}
    if kind == 'sync' and tp.draw(8) == 0:
        prog, actors = scenario_stopped_waiter(tp)
        # (bounded lateness: the driver's steps must stay ordered with the
        # program's, or it stops the clock before the waiter got onto it)
        kn = C.gen_knobs(tp, fault_free_pm=150, allow_big_lat=False)
        kn['stall_max'] = 0.01
        return {'kind': 'sync', 'prog': prog, 'actors': actors, 'knobs': kn,
                'scenario': 'stopped-waiter'}
    feat = {'tempo_clocks': True, 'sync': kind == 'sync',
            'control': kind == 'ctl', 'embed': kind == 'sync'}
    prog = rprog.gen(tp, feat, tier)
    # actors: driver + user threads issuing the same kind of statements
    nr = len(prog['routines'])
    actors = []
    for a in range(1 + tp.choice([0, 1, 2])):
        ops = []
        for _ in range(1 + tp.draw(8)):
            if tp.draw(3) == 0:
                ops.append(['sleep', tp.choice([0, 0.01, 0.125, 0.25, 0.5,
                                                1.0])])
            elif kind == 'sync':
                k = tp.draw(7)
                c = tp.draw(2)
                ops.append([['csignal', c], ['csignal', c], ['cset', c, True],
                            ['cset', c, False], ['cunhang', c],
                            ['fset', tp.draw(2), tp.draw(100)],
                            ['cset', c, True]][k])
                if ops[-1] == ['cset', c, True] and tp.draw(2):
                    ops.append(['csignal', c])
                elif ops[-1][0] == 'cset' and tp.draw(3) == 0:
                    ops[-1] = ops[-1] + ['fn']
            else:
                t = 1 + tp.draw(max(1, nr - 1))
                ops.append([tp.choice(['pause', 'resume', 'resume', 'stop',
                                       'unext']),
                            min(t, nr - 1)])
        actors.append(ops)
    if kind == 'ctl' and tp.draw(2) == 0:
        # one thread keeps asking a routine for its next value while the
        # clock plays it and another thread pauses / stops it
        t = min(1 + tp.draw(max(1, nr - 1)), nr - 1)
        storm = [['sleep', tp.choice([0, 0.125, 0.25, 0.5, 1.0])]]
        for _ in range(3 + tp.draw(6)):
            storm.append(['unext', t])
            if tp.draw(2):
                storm.append(['sleep', tp.choice([0, 0, 0.01, 0.125])])
        ctl = [['sleep', storm[0][1]]]
        for _ in range(1 + tp.draw(3)):
            ctl.append([tp.choice(['stop', 'pause', 'resume']), t])
            if tp.draw(2):
                ctl.append(['sleep', tp.choice([0, 0.01, 0.125])])
        actors += [storm, ctl]
    kn = C.gen_knobs(tp, fault_free_pm=150)
    return {'kind': kind, 'prog': prog, 'actors': actors, 'knobs': kn}


VALS = [0, 0.25, 1, 'x', None, 2.5]


def gen_seq(tp, tier):
    n = 1 + tp.draw(4)
    routines = []
    for i in range(n):
        gen = tp.draw(5) != 0
        steps = []
        for _ in range(tp.draw(7)):
            r = tp.draw(24)
            if r < 9 and gen:
                steps.append(['y', tp.choice(VALS)])
            elif r < 11:
                steps.append(['tt'])
            elif r < 12 and gen:
                steps.append(['ret'])
            elif r < 13:
                steps.append(['raise'])
            elif r < 14:
                steps.append(['raise_base'])
            elif r < 16:
                steps.append(['yar', tp.choice(VALS)])
            elif r < 18:
                steps.append(['ay', tp.choice(VALS)])
            elif r < 19:
                steps.append(['stop_stream'])
            elif r < 22 and i + 1 < n:
                steps.append(['nest', i + 1 + tp.draw(n - i - 1)])
            elif r < 23 and i > 0:
                # on the routine that (directly or not) is running this one
                # (next(): resuming a routine that is running - itself or
                # the one that is running it - is refused like the others:
                # there is no caller's thread and time to restore otherwise)
                steps.append(['anc', tp.choice(['pause', 'stop', 'reset',
                                                'next']),
                              tp.draw(3)])
            else:
                steps.append(['self', tp.choice(['pause', 'stop', 'reset',
                                                 'next'])])
        routines.append({'gen': gen, 'inval': bool(tp.draw(2)),
                         'steps': steps})
    ops = []
    for _ in range(3 + tp.draw(30 if tier != 'thorough' else 60)):
        r = tp.draw(n)
        k = tp.draw(12)
        if k < 6:
            ops.append(['next', r, tp.choice([None, 1, 'v'])])
        else:
            ops.append([['pause', 'resume', 'stop', 'reset', 'play',
                         'pause'][k - 6], r])
    return {'kind': 'seq', 'routines': routines, 'ops': ops}


def shrink_candidates(case):
    import copy
    if case['kind'] == 'seq':
        ops = case['ops']
        n = len(ops)
        step = max(1, n // 2)
        while step >= 1:
            for i in range(0, n, step):
                c = copy.deepcopy(case)
                del c['ops'][i:i + step]
                yield c
            step //= 2
        for i, r in enumerate(case['routines']):
            for j in range(len(r['steps']) - 1, -1, -1):
                c = copy.deepcopy(case)
                del c['routines'][i]['steps'][j]
                yield c
        return
    for p in rprog.shrink_candidates(case['prog']):
        c = copy.deepcopy(case)
        c['prog'] = p
        yield c
    for a in range(len(case['actors']) - 1, -1, -1):
        if a > 0:
            c = copy.deepcopy(case)
            del c['actors'][a]
            yield c
        for j in range(len(case['actors'][a]) - 1, -1, -1):
            c = copy.deepcopy(case)
            del c['actors'][a][j]
            yield c
    kn = case['knobs']
    for key, val in (('stall_pm', 0), ('cost', 0.0), ('lat', 0),
                     ('time_yield', False)):
        if kn.get(key) != val:
            c = copy.deepcopy(case)
            c['knobs'][key] = val
            yield c


# ========================================================== sequential

class Stop(Exception):
    pass


class Paused(Stop):
    pass


class Other(Exception):
    def __init__(self, name='ValueError'):
        super().__init__(name)
        self.name = name


class SeqModel:
    """Sequential reference model of Routine."""

    def __init__(self, routines):
        self.defs = routines
        n = len(routines)
        self.state = ['Init'] * n
        self.pc = [0] * n
        self.terminal = [('none',)] * n
        self.stack = []
        self.tt_log = []      # expected records of 'tt' steps
        self.self_log = []

    def next(self, r, inval):
        st = self.state[r]
        if st == 'Paused':
            raise Paused
        if st == 'Done':
            if self.terminal[r] == ('none',):
                raise Stop
            return self.terminal[r][1]
        d = self.defs[r]
        self.stack.append(r)
        self.state[r] = 'Running'
        try:
            pc = self.pc[r]
            steps = d['steps']
            while True:
                if pc >= len(steps):
                    if d['gen']:
                        self._done(r)
                        raise Stop            # exhaustion
                    self._done(r, ('val', None))
                    return None               # plain function: AlwaysYield
                s = steps[pc]
                pc += 1
                k = s[0]
                if k == 'y':
                    self.pc[r] = pc
                    self.state[r] = 'Suspended'
                    return s[1]
                if k == 'tt':
                    self.tt_log.append((r, list(self.stack)))
                elif k == 'ret':
                    self._done(r)
                    raise Stop
                elif k == 'raise':
                    self._done(r)
                    raise Other
                elif k == 'raise_base':
                    self._done(r)          # any failure, not only Exception
                    raise Other('KeyboardInterrupt')
                elif k == 'yar':
                    self.pc[r] = 0
                    self.state[r] = 'Init'
                    return s[1]
                elif k == 'ay':
                    self._done(r, ('val', s[1]))
                    return s[1]
                elif k == 'stop_stream':
                    self._done(r)
                    if d['gen']:
                        # a StopIteration raised inside a generator body
                        # surfaces as RuntimeError (PEP 479)
                        raise Other('RuntimeError')
                    raise Stop
                elif k == 'nest':
                    try:
                        self.next(s[1], None)
                    except Stop:
                        self._done(r)
                        if d['gen']:
                            raise Other('RuntimeError')
                        raise
                    except Other:
                        self._done(r)
                        raise
                elif k == 'self':
                    self.self_log.append((r, s[1]))
                elif k == 'anc':
                    anc = self.stack[:-1]
                    if anc:
                        self.self_log.append(
                            (anc[-1 - s[2] % len(anc)], s[1]))
        finally:
            self.stack.pop()

    def _done(self, r, terminal=None):
        self.state[r] = 'Done'
        self.pc[r] = 0
        if terminal is not None:
            self.terminal[r] = terminal

    def op(self, k, r):
        st = self.state[r]
        if k == 'pause':
            if st in ('Init', 'Suspended'):
                self.state[r] = 'Paused'
        elif k in ('resume',):
            if st == 'Paused':
                self.state[r] = 'Suspended'
        elif k == 'play':
            if st in ('Init', 'Paused'):
                self.state[r] = 'Suspended'
        elif k == 'stop':
            self.state[r] = 'Done'
            self.pc[r] = 0
        elif k == 'reset':
            self.state[r] = 'Init'
            self.pc[r] = 0
            # "... or return the recorded terminal value until reset()"
            self.terminal[r] = ('none',)


def run_seq(case):
    from sim import world
    w = world.NrtWorld(seed=5).boot()
    main = w.main
    import sc3.base.stream as sstm
    viol = C.Violations()
    defs = case['routines']
    robj = [None] * len(defs)
    tt_log = []
    self_log = []
    invals = []

    def make(i):
        d = defs[i]

        def simple(s):
            """every step kind except 'y' and 'ret'"""
            me = robj[i]
            k = s[0]
            if k == 'tt':
                chain = []
                t = main.current_tt
                while t is not None and t is not main.main_tt:
                    chain.append(index_of(t))
                    t = t.parent
                tt_log.append((i, list(reversed(chain)),
                               main.current_tt is me))
            elif k == 'raise':
                raise ValueError('script')
            elif k == 'raise_base':
                raise KeyboardInterrupt('script')
            elif k == 'yar':
                raise sstm.YieldAndReset(s[1])
            elif k == 'ay':
                raise sstm.AlwaysYield(s[1])
            elif k == 'stop_stream':
                raise sstm.StopStream
            elif k == 'nest':
                robj[s[1]].next()
            elif k in ('self', 'anc'):
                j = i
                if k == 'anc':
                    anc = []
                    t = me.parent
                    while t is not None and t is not main.main_tt:
                        anc.append(t)
                        t = t.parent
                    if not anc:
                        return
                    anc.reverse()
                    me = anc[-1 - s[2] % len(anc)]
                    j = index_of(me)
                try:
                    getattr(me, s[1])()
                    self_log.append((j, s[1], None, me.state.name))
                except sstm.RoutineException:
                    self_log.append((j, s[1], 'RoutineException',
                                     me.state.name))
                except Exception as e:
                    self_log.append((j, s[1], type(e).__name__,
                                     me.state.name))

        def run_steps():
            for s in d['steps']:
                if s[0] == 'y':
                    got = yield s[1]
                    invals.append((i, got))
                elif s[0] == 'ret':
                    return
                else:
                    simple(s)

        def run_plain():
            for s in d['steps']:
                simple(s)

        if d['gen']:
            if d['inval']:
                def f(inval):
                    yield from run_steps()
            else:
                def f():
                    yield from run_steps()
        else:
            if d['inval']:
                def f(inval):
                    run_plain()
            else:
                def f():
                    run_plain()
        return sstm.Routine(f)

    def index_of(t):
        for j, x in enumerate(robj):
            if x is t:
                return j
        return -1

    for i in range(len(defs)):
        robj[i] = make(i)
    model = SeqModel(defs)
    nontrivial = False
    for n, op in enumerate(case['ops']):
        k, r = op[0], op[1]
        where = f'op {n} {op}'
        if k == 'next':
            try:
                exp = ('ret', model.next(r, op[2]))
            except Paused:
                exp = ('exc', 'PausedStream')
            except Stop:
                exp = ('exc', 'StopStream')
            except Other as e:
                exp = ('exc', e.name)
            try:
                got = ('ret', robj[r].next(op[2]))
            except sstm.PausedStream:
                got = ('exc', 'PausedStream')
            except sstm.StopStream:
                got = ('exc', 'StopStream')
            except BaseException as e:
                got = ('exc', type(e).__name__)
            if got != exp:
                viol.add('C11-1', f'next-{exp[0]}-{exp[1] if exp[0] == "exc" else "value"}',
                         f'{where}: next() gave {got}, model {exp}')
                break
            if exp[0] == 'exc':
                nontrivial = True
        else:
            model.op(k, r)
            try:
                getattr(robj[r], k)()
            except Exception as e:
                viol.add('C11-2', f'{k}-raised',
                         f'{where}: {k}() from outside raised {e!r}')
                break
        if main.current_tt is not main.main_tt:
            viol.add('C11-3', 'current-thread-not-restored',
                     f'after {where}: main.current_tt is {main.current_tt!r}')
            break
        bad = [(i, robj[i].state.name, model.state[i])
               for i in range(len(defs))
               if robj[i].state.name != model.state[i]]
        if bad:
            viol.add('C11-2', f'state-after-{k}',
                     f'after {where}: routine states (index, actual, model) '
                     f'{bad}')
            break
        if any(robj[i].parent is not None for i in range(len(defs))):
            viol.add('C11-3', 'parent-not-cleared',
                     f'after {where}: a routine keeps a parent reference')
            break
    if not viol:
        if [(a, b) for a, b, c in tt_log] != model.tt_log \
                or not all(c for a, b, c in tt_log):
            viol.add('C11-3', 'current-thread-inside-body',
                     f'current thread / parent chain seen inside bodies '
                     f'{tt_log[:6]}, model {model.tt_log[:6]}')
        for (i, name, exc, state), (mi, mname) in zip(self_log,
                                                      model.self_log):
            if exc != 'RoutineException' or state != 'Running' \
                    or (i, name) != (mi, mname):
                viol.add('C11-2', f'self-{name}-not-refused',
                         f'{name}() on routine {i} (model {mi}, {mname}) '
                         f'from inside its own run: raised {exc}, state '
                         f'{state}')
        if len(self_log) != len(model.self_log):
            viol.add('C11-2', 'self-op-count',
                     f'{len(self_log)} self operations ran, model '
                     f'{len(model.self_log)}')
    h = hashlib.sha1(repr(case).encode()).hexdigest()
    return {'violations': viol.items,
            'probes': {'seq-history': 1, 'self-ops': len(self_log),
                       'tt-records': len(tt_log)},
            'faults': {}, 'outcome': 'ok', 'steps': len(case['ops']),
            'vtime': 0.0, 'sig': h[:16], 'digest': h,
            'nontrivial': nontrivial,
            'sample': {'routines': defs[:2], 'ops': case['ops'][:10]},
            'features': ['seq']}


class _IdList:
    def __init__(self, lst):
        self.lst = lst

    def __contains__(self, x):
        return any(x is y for y in self.lst)


# ======================================================== RT (sync / ctl)

def run_rt(case, tape, emit):
    from sim import world
    prog = case['prog']
    w = world.RtWorld(tape, dict(case['knobs']), seed=7).boot()
    k = w.kernel
    main = w.main
    it = rprog.Interp(prog, main, 'rt', kernel=k, net=w.net)
    import sc3.base.clock as sclk
    done = [False]

    def finalize(outcome):
        if done[0]:
            return None
        done[0] = True
        k.freeze()
        return {'outcome': outcome, 'trace': it.trace,
                'errors': [r[:3] for r in w.error_logs()],
                'thread_exc': [repr(t.exc) for t in k.threads
                               if t.exc is not None],
                'states': {str(rid): r.state.name
                           for rid, r in it.robj.items()},
                'k': W.kstats(k)}

    k.on_finish = lambda oc: emit(finalize(oc))

    def actor(name, ops):
        for op in ops:
            if op[0] == 'sleep':
                k.sleep(op[1])
            elif op[0] == 'unext':
                # a plain next() from a user thread, as the library is called
                # by its users: not wrapped in the harness' lock, it meets
                # whatever another thread is doing to the routine
                t = it.robj.get(op[1])
                if t is None:
                    continue
                cname = prog['routines'][op[1]]['clock']
                clk = sclk.SystemClock if cname == 'sys' else \
                    sclk.AppClock if cname == 'app' else it.clocks.get(cname)
                it.trace.append({'ev': 'unext', 'r': name, 'secs': 0.0,
                                 'vals': [op[1]], 'now': k.now,
                                 'state': '', 'top': None})
                try:
                    t.next((t, clk))
                    out = 'ret'
                except Exception as e:
                    out = type(e).__name__
                it.trace.append({'ev': 'unext-done', 'r': name, 'secs': 0.0,
                                 'vals': [op[1], out], 'now': k.now,
                                 'state': '', 'top': None})
            else:
                with main._main_lock:        # linearisation point
                    try:
                        it.stmt(name, None, None, op)
                    except sclk.ClockNotRunning:
                        # a waiter sits on a stopped TempoClock
                        it.event('op-raised', name, op[0], op[1])

    threads = []
    for a, ops in enumerate(case['actors'][1:], 1):
        t = w.thr.Thread(target=lambda ops=ops, a=a: actor(f'user{a}', ops),
                         name=f'user{a}')
        threads.append(t)
    it.start_root()
    for t in threads:
        t.start()
    actor('main', case['actors'][0])
    for t in threads:
        t.join()
    k.wait_idle(k.now + 3600.0)
    return finalize('ok')


def check_sync(case, res, viol, stats):
    """Condition / FlowVar: every continuation is justified, happens once,
    and none is missing at the end."""
    test = {}          # cond -> bool
    waiting = {}       # cond -> list of routine ids waiting
    released = {}      # routine id -> number of outstanding releases
    fval = {}          # flow -> value
    fwait = {}         # flow -> list of routine ids
    stopped = set()    # TempoClocks stopped by the program
    prog0 = case['prog']

    def release(lst, how):
        # signal()/unhang() reschedule the waiters; one that sits on a
        # stopped TempoClock cannot be rescheduled (the call raises
        # ClockNotRunning): the others waited on a condition that holds and
        # was signalled, they resume all the same
        for r in lst:
            if isinstance(r, int) and \
                    prog0['routines'][r]['clock'] in stopped:
                stats['waiter-on-stopped-clock'] = stats.get(
                    'waiter-on-stopped-clock', 0) + 1
                continue
            released[r] = released.get(r, 0) + 1
            stats[how] = stats.get(how, 0) + 1

    # an embedded routine runs inside the routine that embeds it: whatever
    # it waits for, the clock goes on playing that outer routine
    emb = {}
    for i, r in enumerate(prog0['routines']):
        for st in r['body']:
            if st[0] == 'embed':
                emb[st[1]] = i

    def top_of(r):
        while r in emb:
            r = emb[r]
        return r

    for i, e in enumerate(res['trace']):
        ev = e['ev']
        rid = e['r']
        if isinstance(rid, int) and e.get('top') is not None \
                and e['top'] != top_of(rid):
            viol.add('C11-3', 'nested-routine-outside-its-player',
                     f'routine {rid} (embedded in routine {top_of(rid)}) '
                     f'ran event {ev} at trace index {i} while the clock '
                     f'was playing routine {e["top"]}')
            return
        if rid in emb:
            stats['events-in-embedded-routines'] = stats.get(
                'events-in-embedded-routines', 0) + 1
        if ev == 'stopclock':
            stopped.add(f't{e["vals"][0]}')
        elif ev == 'cset':
            test[e['vals'][0]] = e['vals'][1]
        elif ev == 'cwait':
            c = e['vals'][0]
            if test.get(c, False):
                released[rid] = released.get(rid, 0) + 1   # yields 0
                stats['wait-already-true'] = stats.get(
                    'wait-already-true', 0) + 1
            else:
                waiting.setdefault(c, []).append(rid)
        elif ev == 'csignal':
            c = e['vals'][0]
            if test.get(c, False):
                release(waiting.pop(c, []), 'released-by-signal')
            elif waiting.get(c):
                stats['signal-while-test-false'] = stats.get(
                    'signal-while-test-false', 0) + 1
        elif ev == 'cunhang':
            release(waiting.pop(e['vals'][0], []), 'released-by-unhang')
        elif ev == 'cwoke':
            if released.get(rid, 0) <= 0:
                c = e['vals'][0]
                viol.add(
                    'C11-4', 'resumed-without-signal',
                    f'routine {rid} continued past Condition {c}.wait() at '
                    f'trace index {i} without a signal() while the test was '
                    f'true or an unhang() (test now {test.get(c, False)})')
                return
            released[rid] -= 1
            stats['continuations'] = stats.get('continuations', 0) + 1
        elif ev == 'fget':
            f = e['vals'][0]
            if f in fval:
                released[rid] = released.get(rid, 0) + 1
            else:
                fwait.setdefault(f, []).append(rid)
        elif ev == 'fset':
            f, v = e['vals'][0], e['vals'][1]
            if f in fval:
                viol.add('C11-5', 'flowvar-rebound',
                         f'FlowVar {f} accepted a second value {v}')
                return
            fval[f] = v
            for r in fwait.pop(f, []):
                released[r] = released.get(r, 0) + 1
        elif ev == 'fset-refused':
            if e['vals'][0] not in fval:
                viol.add('C11-5', 'flowvar-first-set-refused',
                         f'FlowVar {e["vals"][0]} refused its first value')
                return
            stats['rebind-refused'] = stats.get('rebind-refused', 0) + 1
        elif ev == 'fgot':
            f, v = e['vals'][0], e['vals'][1]
            if released.get(rid, 0) <= 0 or f not in fval:
                viol.add('C11-5', 'flowvar-read-before-set',
                         f'routine {rid} read FlowVar {f} = {v!r} at trace '
                         f'index {i} before a value was set')
                return
            released[rid] -= 1
            if v != fval[f]:
                viol.add('C11-5', 'flowvar-wrong-value',
                         f'routine {rid} read {v!r} from FlowVar {f}, value '
                         f'set was {fval[f]!r}')
                return
            stats['flow-reads'] = stats.get('flow-reads', 0) + 1
    # a routine that yielded d resumes exactly d later (a spurious second
    # release would move its pending wake-up to "now")
    prog = case['prog']
    pend = {}
    for i, e in enumerate(res['trace']):
        rid = e['r']
        if not isinstance(rid, int):
            continue
        if rid in pend:
            s0, d = pend.pop(rid)
            cname = prog['routines'][rid]['clock']
            tempo = 1.0
            if cname.startswith('t'):
                tempo = prog['clocks'][int(cname[1:])]['tempo']
            want = s0 + d / tempo
            stats['wait-resume-checked'] = stats.get(
                'wait-resume-checked', 0) + 1
            if abs(e['secs'] - want) > 1e-9 * max(1.0, abs(want)):
                viol.add('C11-4', 'resumed-before-its-time',
                         f'routine {rid} yielded {d} at {s0} s and resumed '
                         f'at {e["secs"]} s (trace index {i})')
                return
        if e['ev'] == 'wait':
            pend[rid] = (e['secs'], e['vals'][0])
    # at quiescence nothing released is still outstanding
    left = {r: n for r, n in released.items() if n > 0}
    if left:
        viol.add('C11-4', 'released-but-never-resumed',
                 f'routines released by signal/unhang/value that never '
                 f'continued: {left} (states {res["states"]})')


TABLE = {
    'pause': {'Init': 'Paused', 'Suspended': 'Paused', 'Paused': 'Paused',
              'Done': 'Done'},
    'resume': {'Init': 'Init', 'Suspended': 'Suspended',
               'Paused': 'Suspended', 'Done': 'Done'},
    'stop': {'Init': 'Done', 'Suspended': 'Done', 'Paused': 'Done',
             'Done': 'Done'},
}


def check_ctl(case, res, viol, stats):
    blocked = {}      # routine id -> 'Paused' | 'Done' (model)
    for i, e in enumerate(res['trace']):
        ev = e['ev']
        rid = e['r']
        if ev in ('pause', 'resume', 'stop'):
            t, info = e['vals'][0], e['vals'][1]
            if info is None:
                continue
            stats[f'op-{ev}-{info["pre"]}'] = stats.get(
                f'op-{ev}-{info["pre"]}', 0) + 1
            if info['pre'] == 'Running':
                if info['exc'] != 'RoutineException' or \
                        info['post'] != 'Running':
                    viol.add('C11-2', f'{ev}-self-not-refused',
                             f'{ev}() on a running routine: {info}')
                continue
            want = TABLE[ev][info['pre']]
            if info['exc'] is not None or info['post'] != want:
                viol.add('C11-2', f'{ev}-transition',
                         f'{ev}() on routine {t} in state {info["pre"]}: '
                         f'now {info["post"]} (exception {info["exc"]}), '
                         f'expected {want}')
                return
            if want in ('Paused', 'Done'):
                blocked[t] = want
            else:
                blocked.pop(t, None)
        elif ev == 'unext-done':
            t, out = e['vals']
            stats[f'op-unlocked-next-{out}'] = stats.get(
                f'op-unlocked-next-{out}', 0) + 1
            # the call began after the model's last change of t when no
            # control operation lies between its two marks
            j = i - 1
            while j >= 0 and not (res['trace'][j]['ev'] == 'unext'
                                  and res['trace'][j]['r'] == rid):
                j -= 1
            quiet = not any(x['ev'] in ('pause', 'resume', 'stop', 'spawn',
                                        'spawnd')
                            for x in res['trace'][j:i])
            if quiet and t in blocked and out != {
                    'Paused': 'PausedStream', 'Done': 'StopStream'}[blocked[t]]:
                viol.add('C11-1', f'next-on-{blocked[t]}-routine',
                         f'next() from {rid} on routine {t}, which is '
                         f'{blocked[t]}: {out}')
                return
        elif isinstance(rid, int):
            if rid in blocked:
                viol.add('C11-1', f'body-ran-while-{blocked[rid]}',
                         f'routine {rid} executed a step ({ev}) at trace '
                         f'index {i} although it is {blocked[rid]}')
                return
            if ev in ('spawn', 'spawnd'):
                blocked.pop(e['child'], None)     # a new routine object
    # final states agree with the model where the model knows
    for t, st in blocked.items():
        got = res['states'].get(str(t))
        if got is not None and got != st:
            viol.add('C11-2', 'final-state',
                     f'routine {t} ends in state {got}, model {st}')


def run_case(case, tape, ctx):
    if case['kind'] == 'seq':
        return run_seq(case)
    viol = C.Violations()
    stats = {}
    res = S.subrun(tape, lambda st, emit: run_rt(case, st, emit))
    agg = W.combine([res])
    if res['outcome'] != 'ok':
        return W.result(viol, agg, outcome=res['outcome'])
    if res['errors']:
        viol.add('C11-1', 'error-logged', str(res['errors'][0]))
    if res['thread_exc']:
        viol.add('C11-1', 'thread-died', str(res['thread_exc']))
    if case['kind'] == 'sync':
        check_sync(case, res, viol, stats)
    else:
        check_ctl(case, res, viol, stats)
    sample = {'kind': case['kind'], 'actors': case['actors'][:2],
              'routines': [r['body'][:8]
                           for r in case['prog']['routines'][:2]]}
    relevant = stats.get('continuations', 0) + stats.get('flow-reads', 0) \
        + sum(v for k_, v in stats.items() if k_.startswith('op-'))
    return W.result(viol, agg, nontrivial=agg['contended'] > 0
                    and relevant > 0, sample=sample, extra_probes=stats,
                    features=[case['kind']])
