"""C09 - time-ordered collections are stable priority queues under any
history.  (a) direct histories from the tape on a real TaskQueue next to a
sorted-list reference model; (b) shadow monitors on every live queue of a
simulated RT run (histories produced by concurrently scheduling threads) and
of an NRT run (ClockScheduler, OscScore)."""

from . import common as C

ID = 'C09'
QUICK_RUNS = 3000
THOROUGH_SECONDS = 300
INF = float('inf')
PRIOS = [0, 0.0, 1, 1.5, 1.5, 2, -1, 3.25, INF, -INF,
         # exact integer times beyond the precision of a double (time tags,
         # nanosecond counters): ints and floats compare exactly in Python
         2 ** 53, 2 ** 53 + 1, 2 ** 53 + 2, float(2 ** 53), -0.0,
         2 ** 64 + 1]

RULE = ('direct cases: one evaluation = one op history (add, re-add, remove, '
        'pop, peek smallest/largest, empty, clear, iteration; one in six a bulk '
        'history of 30-200 entries with many removes and re-adds) on a real '
        'TaskQueue; rt-shadow / nrt-shadow cases: one simulated run whose '
        'live queues are mirrored into the model; distinct = distinct history '
        'hash / schedule signature; non-trivial = the history contains a tie '
        'or a re-add (direct) or a contended pick (shadow)')
COMPONENTS = {'real': 'sc3.base._taskq.TaskQueue; in shadow cases all of sc3',
              'stub': 'none (direct); threading/time/socket shims (rt-shadow)'}
ASSUMPTIONS = ['direct cases involve no scheduler: they are model-based '
               'history checks run by the simulator\'s tape and shrinker']


def gen_case(tp, tier):
    kind = tp.choice(['direct'] * 8 + ['rt-shadow', 'nrt-shadow'])
    if kind == 'rt-shadow':
        from . import c08
        return {'kind': kind, 'inner': c08.gen_case(tp, tier)}
    if kind == 'nrt-shadow':
        from . import rprog
        feat = {'tempo_clocks': True, 'sends': True, 'app': True}
        return {'kind': kind, 'prog': rprog.gen(tp, feat, tier)}
    if tp.draw(6) == 0:
        return gen_bulk(tp, tier)
    n = 5 + tp.draw(56 if tier != 'thorough' else 120)
    ntasks = 2 + tp.draw(7)
    nprio = 1 + tp.draw(5)
    prios = [tp.choice(PRIOS) for _ in range(nprio)]
    ops = []
    for _ in range(n):
        r = tp.draw(20)
        if r < 8:
            ops.append(['add', tp.choice(prios), tp.draw(ntasks)])
        elif r < 10:
            ops.append(['remove', tp.draw(ntasks)])
        elif r < 14:
            ops.append(['pop'])
        elif r < 16:
            ops.append(['peek', bool(tp.draw(2))])
        elif r < 17:
            ops.append(['empty'])
        elif r < 18:
            ops.append(['iter'])
        elif r < 19:
            ops.append(['len'])
        else:
            ops.append(['clear'] if tp.draw(4) == 0 else ['pop'])
    return {'kind': 'direct', 'ops': ops, 'ntasks': ntasks,
            'task_kinds': [tp.draw(4) for _ in range(ntasks)]}


def gen_bulk(tp, tier):
    """A long-lived queue: many entries in arbitrary time order, then many
    removes and re-adds (lazily deleted entries pile up), then everything is
    popped while a few more entries arrive."""
    ntasks = 30 + tp.draw(70 if tier != 'thorough' else 170)
    nprio = 3 + tp.draw(20)
    ops = []
    for t in range(ntasks):
        ops.append(['add', tp.draw(nprio) * tp.choice([1, 1, 0.5]), t])
    for _ in range(ntasks // 2 + tp.draw(ntasks)):
        t = tp.draw(ntasks)
        if tp.draw(3) == 0:
            ops.append(['add', tp.draw(nprio), t])          # re-add: moves
        else:
            ops.append(['remove', t])
        if tp.draw(12) == 0:
            ops.append(tp.choice([['peek', True], ['peek', False], ['len'],
                                  ['empty'], ['pop']]))
    ops.append(['iter'])
    for _ in range(ntasks + 4):
        r = tp.draw(10)
        if r == 0:
            ops.append(['add', tp.draw(nprio), tp.draw(ntasks)])
        elif r == 1:
            ops.append(['peek', bool(tp.draw(2))])
        ops.append(['pop'])
    ops.append(['empty'])
    return {'kind': 'direct', 'ops': ops, 'ntasks': ntasks, 'bulk': True,
            'task_kinds': [tp.draw(4) for _ in range(ntasks)]}


def shrink_candidates(case):
    import copy
    if case['kind'] != 'direct':
        return
    ops = case['ops']
    n = len(ops)
    step = max(1, n // 2)
    while step >= 1:
        for i in range(0, n, step):
            c = copy.deepcopy(case)
            del c['ops'][i:i + step]
            if c['ops']:
                yield c
        step //= 2


class _Obj:
    def __init__(self, i):
        self.i = i

    def meth(self):
        pass

    def __repr__(self):
        return f'obj{self.i}'


def run_case(case, tape, ctx):
    if case['kind'] == 'rt-shadow':
        from . import c08
        res = c08.run_case(case['inner'], tape, ctx)
        res['violations'] = [v for v in res['violations']
                             if v['oracle'] == 'C09-shadow']
        res['features'] = ['rt-shadow']
        return res
    if case['kind'] == 'nrt-shadow':
        return run_nrt_shadow(case, tape)
    return run_direct(case)


def run_direct(case):
    import hashlib
    from sc3.base._taskq import TaskQueue
    import sc3.base.functions as sfn
    viol = C.Violations()
    objs = [_Obj(i) for i in range(case['ntasks'])]
    tasks = []
    for i, kind in enumerate(case['task_kinds']):
        if kind == 0:
            tasks.append(lambda i=i: objs[i])           # identity-hashed
        elif kind == 1:
            def f(): pass
            fo = sfn.Function(f)                        # AbstractObject __eq__
            tasks.append(lambda fo=fo: fo)
        elif kind == 2:
            tasks.append(lambda i=i: objs[i].meth)      # equal, not identical
        else:
            tasks.append(lambda i=i: ('t', i))          # equal tuples
    q = TaskQueue()
    m = C.RefQueue()
    ties = readds = 0
    for n, op in enumerate(case['ops']):
        k = op[0]
        where = f'op {n} {op}'
        if k == 'add':
            t = tasks[op[2]]()
            if m._find(t) >= 0:
                readds += 1
            if any(e[0] == op[1] for e in m.items):
                ties += 1
            q.add(op[1], t)
            m.add(op[1], t)
        elif k == 'remove':
            t = tasks[op[1]]()
            q.remove(t)
            m.remove(t)
        elif k == 'pop':
            try:
                got = q.pop()
            except KeyError:
                got = KeyError
            try:
                exp = m.pop()
            except KeyError:
                exp = KeyError
            if not same_entry(got, exp):
                viol.add('C09-1', 'pop', f'{where}: returned {got!r}, model '
                                         f'{exp!r}')
                break
        elif k == 'peek':
            try:
                got = q.peek(op[1])
            except KeyError:
                got = KeyError
            try:
                exp = m.peek(op[1])
            except KeyError:
                exp = KeyError
            if op[1]:
                ok = same_entry(got, exp)
            else:
                # latest entry: the largest time; which of several entries
                # with that time is not specified
                ok = (got is KeyError) == (exp is KeyError)
                if ok and got is not KeyError:
                    ok = got[0] == exp[0] and any(
                        e[0] == got[0] and C.same(e[2], got[1])
                        for e in m.items)
            if not ok:
                viol.add('C09-2', f'peek-{"smallest" if op[1] else "largest"}',
                         f'{where}: returned {got!r}, model {exp!r}')
                break
        elif k == 'empty':
            if q.empty() != m.empty():
                viol.add('C09-2', 'empty', f'{where}: returned {q.empty()}, '
                                           f'model {m.empty()}')
                break
        elif k == 'iter' or k == 'len':
            got = list(q)
            exp = m.sorted()
            if len(got) != len(exp) or not all(
                    same_entry(a, b) for a, b in zip(got, exp)):
                viol.add('C09-3', 'iteration', f'{where}: {got!r}, model '
                                               f'{exp!r}')
                break
        elif k == 'clear':
            q.clear()
            m.clear()
        # cross-invariant after every op
        if q.empty() != m.empty():
            viol.add('C09-2', 'empty-after-op',
                     f'after {where}: empty() {q.empty()}, model {m.empty()}')
            break
    h = hashlib.sha1(repr(case['ops']).encode()).hexdigest()
    return {'violations': viol.items,
            'probes': dict({'direct-history': 1, 'ties': ties,
                            'readds': readds},
                           **({'bulk-history': 1} if case.get('bulk')
                              else {})),
            'faults': {}, 'outcome': 'ok', 'steps': len(case['ops']),
            'vtime': 0.0, 'sig': h[:16], 'digest': h,
            'nontrivial': ties > 0 or readds > 0,
            'sample': {'ops': case['ops'][:12]},
            'features': ['direct-bulk' if case.get('bulk') else 'direct']}


def same_entry(a, b):
    if a is KeyError or b is KeyError:
        return a is b
    return a[0] == b[0] and C.same(a[1], b[1])


def run_nrt_shadow(case, tape):
    """NRT run of a program with monitors on ClockScheduler's queue and on
    the score queue."""
    import hashlib
    from sim import world
    from . import rprog
    w = world.NrtWorld(seed=7).boot()
    main = w.main
    viol = C.Violations()
    stats = {}
    C.QueueMonitor(main._clock_scheduler.queue, 'nrt-sched', viol, None,
                   stats)
    C.QueueMonitor(main._osc_interface._osc_score._scoreq, 'score', viol,
                   None, stats)
    it = rprog.Interp(case['prog'], main, 'nrt')
    it.start_root()
    score = main.process(0.5)
    lst = score.list
    for a, b in zip(lst, lst[1:]):
        if b[0] < a[0]:
            viol.add('C09-shadow', 'score-order',
                     f'score entry at {b[0]} after {a[0]}')
    h = hashlib.sha1(repr(case['prog']).encode()).hexdigest()
    return {'violations': viol.items, 'probes': stats, 'faults': {},
            'outcome': 'ok', 'steps': stats.get('q-pop', 0), 'vtime': 0.0,
            'sig': h[:16], 'digest': h,
            'nontrivial': stats.get('q-tie', 0) > 0,
            'sample': {'kind': 'nrt-shadow'}, 'features': ['nrt-shadow']}
