"""C14 - events resolve their keys and play as correctly timed server
commands.

Event programs - single events with drawn subsets of pitch / amplitude /
duration / server keys, and Pbind / Ppar / Pchain / Pdur / Pdelta
compositions over finite value lists (with rests) - are played from a routine
by real sc3 in the NRT world (score) and in the RT world against the fake
scsynth under faults.  Oracle: an independent key-chain model (written from
the SuperCollider event documentation) and a timeline model expand the program
into the expected bundles: one /s_new per note event at logical time +
latency with instrument, fresh node id, add action, group and the controls
the event defines; one gate-off later by sustain when the instrument has a
gate; nothing for rests; nothing else."""

import math

from sim import fakeserver as FS
from sim import osc
from sim import subrun as S
from . import common as C
from . import rworlds as W

ID = 'C14'
QUICK_RUNS = 600
THOROUGH_SECONDS = 480
T0 = 0.5
TICK = 2.0 ** -32

COMPONENTS = {
    'real': 'sc3 event types and key functions, Scale/Tuning, '
            'EventStreamPlayer, Pbind/Ppar/Pchain/Pdur/Pdelta/Pseq, '
            'SynthDescLib lookups, clocks, OSC interface / score',
    'stub': 'threading primitives, time, UDP network, scsynth (RT); nothing '
            '(NRT)'}
ASSUMPTIONS = [
    'the key-chain half of the oracle is input-style: its reach is whatever '
    'key combinations the programs draw']

SCALES = {'major': [0, 2, 4, 5, 7, 9, 11], 'minor': [0, 2, 3, 5, 7, 8, 10],
          'penta': [0, 2, 4, 7, 9],
          # degrees index the steps of a tuning that is not 12-tone
          'et19': [0, 3, 6, 8, 11, 14, 17], 'et7': [0, 1, 2, 3, 4, 5, 6],
          'bp': [0, 2, 4, 6, 8, 10, 12],
          # Scale.chromatic() with its default tuning: every semitone
          'chromatic': list(range(12))}
# name -> (number of tuning steps, octave ratio); default 12-tone, ratio 2
TUNINGS = {'et19': (19, 2.0), 'et7': (7, 2.0), 'bp': (13, 3.0)}


def make_scale(name):
    import sc3.seq.scale as scl
    if name == 'chromatic':
        return scl.Scale.chromatic()
    if name not in TUNINGS:
        return scl.Scale(SCALES[name])
    n, ratio = TUNINGS[name]
    semis = 12.0 * math.log2(ratio) / n
    return scl.Scale(SCALES[name],
                     scl.Tuning(tuple(i * semis for i in range(n)), ratio))


def steps_per_octave(name):
    n, ratio = TUNINGS.get(name, (12, 2.0))
    return math.log2(ratio) * n, ratio
INSTR = {
    # name -> (control names in slot order, has_gate)
    'default': (['freq', 'index', 'fmh', 'amp', 'pan', 'gate'], True),
    'test': (['out', 'amp', 'gate'], True),
    'nogate': (['freq', 'amp', 'pan', 'out'], False),
    # a definition with variants ('vari.low', 'vari.wide': presets of its
    # controls, selected by the event's variant key)
    'vari': (['freq', 'amp', 'pan', 'out', 'gate'], True),
}
VARIANTS = {'vari': ['low', 'wide']}
# the instrument 'user' can be re-defined with another control list while
# the program runs: (control names in slot order, has_gate) per variant
USER_VARIANTS = [(['freq', 'amp', 'gate'], True),
                 (['freq', 'amp', 'pan', 'out', 'gate'], True),
                 (['out', 'freq', 'pan'], False)]


def instr_of(ev):
    name = ev.get('instrument', 'default')
    if name == 'user':
        return USER_VARIANTS[ev.get('_variant', 0)]
    return INSTR[name]


# ------------------------------------------------------------ generation

def gen_keys(tp, full=True):
    ev = {}
    k = tp.draw(6)
    # one main pitch key with the modifiers that belong to it (the library
    # applies a modifier only next to its own main key; what e.g. ctranspose
    # does to a degree, or root without any pitch key, is left unspecified)
    mods = []
    if k == 0:
        ev['freq'] = tp.choice([220, 440.0, 330.5, 1000])
    elif k == 1:
        ev['midinote'] = tp.choice([60, 48, 72, 61.5, 69])
        mods = [('ctranspose', [12, -7, 0.5], 3)]
    elif k == 2:
        ev['note'] = tp.choice([0, 2, 7, -3, 14])
        mods = [('gtranspose', [1, -1.5], 5), ('ctranspose', [12, -7], 5),
                ('octave', [4, 6, 3], 4), ('root', [2, -1], 5),
                ('scale', list(SCALES), 5)]
    elif k < 5:
        ev['degree'] = tp.choice([0, 1, 2, 4, 7, -1, -8, 9])
        mods = [('mtranspose', [1, -2, 3], 4), ('gtranspose', [1, -1.5], 6),
                ('octave', [4, 6, 3], 4), ('root', [2, -1], 6),
                ('scale', list(SCALES), 4)]
    mods += [('harmonic', [2, 0.5, 3], 8), ('detune', [1.5, -3], 8)]
    for key, vals, p in mods:
        if tp.draw(p) == 0:
            ev[key] = tp.choice(vals)
    k = tp.draw(6)
    if k == 0:
        ev['amp'] = tp.choice([0.2, 0.05, 1.0])
    elif k == 1:
        ev['db'] = tp.choice([-6, -20, 0, -12.5])
    elif k == 2:
        ev['velocity'] = tp.choice([64, 127, 1])
    if tp.draw(4) == 0:
        ev['pan'] = tp.choice([-1, 0.5, 0.25])
    if tp.draw(6) == 0:
        ev['out'] = tp.choice([0, 2, 8])
    if full:
        for key, vals, p in (
                ('dur', [0.5, 0.25, 2, 1.5], 3), ('legato', [0.5, 1, 1.5], 4),
                ('stretch', [2, 0.5], 6), ('sustain', [0.125, 3], 10),
                ('delta', [0.75, 0.125], 12)):
            if tp.draw(p) == 0:
                ev[key] = tp.choice(vals)
        if tp.draw(5) == 0:
            ev['add_action'] = tp.choice(['addToTail', 'addToHead', 1])
        if tp.draw(8) == 0:
            ev['group'] = tp.choice([1, 0])
    return ev


def gen_bind(tp):
    n = 1 + tp.draw(6)
    keys = {}
    base = gen_keys(tp, full=False)
    for k, v in base.items():
        # a list (Pseq) of varying values, or a constant
        if tp.draw(2) and isinstance(v, (int, float)):
            keys[k] = [v + i * (1 if k in ('degree', 'note', 'midinote')
                                else 0) for i in range(n + tp.draw(3))]
        else:
            keys[k] = v
    durs = []
    # (now and then durations off the binary grid whose sums land just below
    # a round total: within the tolerance of a Pdur)
    pool = [0.25, 0.5, 0.5, 1, 0.125, 1.5] if tp.draw(8) \
        else [0.3333, 0.3333, 0.1666, 0.4999, 0.9995]
    for _ in range(n):
        d = tp.choice(pool)
        if tp.draw(6) == 0:
            d = ['rest', d]
        durs.append(d)
    keys['dur'] = durs
    if tp.draw(4) == 0:
        keys['legato'] = tp.choice([0.5, 1, 1.5, 0.1])
    if tp.draw(6) == 0:
        keys['stretch'] = tp.choice([2, 0.5])
    return ['bind', keys, tp.choice(['default', 'default', 'test', 'nogate'])]


def gen_mono(tp):
    b = gen_bind(tp)
    keys = b[1]
    # the first event creates the synth: it is never a rest here
    if isinstance(keys['dur'][0], list):
        keys['dur'][0] = keys['dur'][0][1]
    if tp.draw(3) == 0:
        # articulated voice (no rests here): legato decides per event
        # whether the node is held or released
        keys['dur'] = [d[1] if isinstance(d, list) else d
                       for d in keys['dur']]
        keys['legato'] = [tp.choice([1, 1, 0.5, 1.5, 0.25])
                          for _ in keys['dur']]
        keys.pop('sustain', None)
        return ['mono', keys,
                tp.choice(['default', 'default', 'test', 'nogate']), True]
    return ['mono', keys, tp.choice(['default', 'default', 'test', 'nogate'])]


def gen_pat(tp, depth=0, allow_mono=True):
    k = tp.draw(11)
    if k == 10:
        # (what a cut-short or chained Pmono does with its clean-up is not
        # modelled: only at top level, in Ppar and after Pdelta)
        return gen_mono(tp) if allow_mono else gen_bind(tp)
    if depth < 2 and k == 0:
        return ['par', [gen_pat(tp, depth + 1, allow_mono)
                        for _ in range(2 + tp.draw(2))]]
    if depth < 2 and k == 1:
        return ['dur', tp.choice([0.5, 1, 1.25, 2, 3]),
                gen_pat(tp, depth + 1, False)]
    if depth < 2 and k == 2:
        return ['delta', tp.choice([0.25, 0.5, 1]),
                gen_pat(tp, depth + 1, allow_mono)]
    if depth < 2 and k == 4:
        # one after the other: the total duration of each part is where the
        # next one starts
        return ['seq', [gen_pat(tp, depth + 1, False)
                        for _ in range(2 + tp.draw(2))]]
    if depth < 2 and k == 3:
        a = gen_bind(tp)
        b = gen_bind(tp)
        a[1].pop('dur', None)        # the outer pattern only overrides keys
        a[1].setdefault('pan', 0.5)
        if tp.draw(4) == 0:
            # the outer pattern rests first (Pdelta): the rest takes the
            # place of the inner pattern's first event, the outer keys then
            # go on top of the events that come in after it
            a[1].pop('stretch', None)
            b[1].pop('stretch', None)
            return ['chain', ['delta', tp.choice([0.25, 0.5, 1]), a], b]
        return ['chain', a, b]
    return gen_bind(tp)


def gen_case(tp, tier):
    kind = tp.choice(['single', 'pattern', 'pattern'])
    kn = C.gen_knobs(tp, fault_free_pm=250, max_steps=60000)
    if kind == 'single':
        evs = []
        for _ in range(1 + tp.draw(4)):
            ev = gen_keys(tp)
            ev['instrument'] = tp.choice(['default', 'default', 'test',
                                          'nogate', 'vari'])
            if ev['instrument'] == 'vari' or tp.draw(12) == 0:
                # (on a definition without variants the key changes nothing)
                ev['variant'] = tp.choice(['low', 'wide'])
            if tp.draw(8) == 0:
                # played on a second server, where this client is number 2
                # of 4: its own default group, its own node id range
                ev['_server'] = 'other'
            evs.append(ev)
        case = {'kind': kind, 'events': evs, 'knobs': kn,
                'clock': tp.choice(['sys', 'tempo'])}
        if tp.draw(4) == 0:
            # one event is played, some of its keys are changed, and the
            # same object (or a copy of it) is played again
            ev = tp.choice(evs)
            # (playing writes the resolved freq, amp and sustain back into
            # the event, as sclang does: only changes that do not go through
            # those stored values have a specified effect)
            # (it also writes the definition's name back as the instrument:
            # with a variant that is 'name.variant', which is no instrument
            # to look up the second time - not played again here)
            if 'harmonic' not in ev and 'detune' not in ev \
                    and 'variant' not in ev:
                ch = {}
                for k, vals in (('amp', [0.3, 0.05]), ('pan', [-1.0, 0.25]),
                                ('out', [4])):
                    if tp.draw(2) == 0 and not (
                            k == 'amp' and ('db' in ev or 'velocity' in ev)):
                        ch[k] = tp.choice(vals)
                if 'freq' in ev:
                    ch['freq'] = ev['freq'] * 1.5
                if ch:
                    ev['_again'] = [ch, bool(tp.draw(2))]
        if tp.draw(4) == 0:
            # the instrument 'user' is defined, used, defined again with
            # other controls and used again
            if len(evs) < 2:
                evs.append(gen_keys(tp))
            v0 = tp.draw(len(USER_VARIANTS))
            v1 = (v0 + 1 + tp.draw(len(USER_VARIANTS) - 1)) \
                % len(USER_VARIANTS)
            at = 1 + tp.draw(len(evs) - 1)
            for i, ev in enumerate(evs):
                if i in (at - 1, at) or tp.draw(2) == 0:
                    ev.pop('variant', None)
                    ev['instrument'] = 'user'
                    ev['_variant'] = v0 if i < at else v1
                    for k in ('pan', 'out'):
                        if k not in ev and tp.draw(2) == 0:
                            ev[k] = {'pan': 0.5, 'out': 2}[k]
            case['redef'] = [v0, v1, at]
        return case
    case = {'kind': kind, 'pats': [gen_pat(tp)
                                   for _ in range(1 + tp.draw(2))],
            'knobs': kn, 'clock': tp.choice(['sys', 'tempo']),
            'mute': False}
    if tp.draw(4) == 0:
        # one player is reset between two of its wake-ups: it starts the
        # pattern again from its first event at the next one (players and
        # the resetting routine share SystemClock: ordered by logical time)
        i = tp.draw(len(case['pats']))
        p = case['pats'][i]
        if 'mono' not in repr(p):
            times = sorted(wakes(p))
            gaps = [(a, b) for a, b in zip(times, times[1:])
                    if b - a >= 0.1]
            if gaps:
                a, b = tp.choice(gaps)
                case['reset'] = {'pat': i, 'at': (a + b) / 2}
                case['clock'] = 'sys'
    elif tp.draw(5) == 0 and 'mono' not in repr(case['pats']):
        # the players are muted from the start and unmuted at an instant
        # that is not an event's: muted events (rests among them) send
        # nothing and take their time, what comes after plays as ever
        # (players and this routine on SystemClock: ordered by logical time)
        case['mute'] = tp.choice([0.7, 1.3, 2.2])
        case['clock'] = 'sys'
    return case


def shrink_candidates(case):
    import copy
    if case['kind'] == 'single':
        for i in range(len(case['events']) - 1, -1, -1):
            if len(case['events']) > 1:
                c = copy.deepcopy(case)
                del c['events'][i]
                if c.get('redef') and i < c['redef'][2]:
                    c['redef'][2] -= 1
                yield c
        for i, ev in enumerate(case['events']):
            for k in list(ev):
                if k == 'instrument' or k.startswith('_'):
                    continue
                c = copy.deepcopy(case)
                del c['events'][i][k]
                if k in ('degree', 'note', 'midinote', 'freq'):
                    # its modifiers alone have no specified meaning
                    for kk in ('mtranspose', 'gtranspose', 'ctranspose',
                               'octave', 'root', 'scale'):
                        c['events'][i].pop(kk, None)
                yield c
    else:
        if case.get('reset'):
            c = copy.deepcopy(case)
            del c['reset']
            yield c
        rs = case.get('reset')
        for i in range(len(case['pats']) - 1, -1, -1):
            if len(case['pats']) > 1 and not (rs and rs['pat'] == i):
                c = copy.deepcopy(case)
                del c['pats'][i]
                if rs and i < rs['pat']:
                    c['reset']['pat'] -= 1
                yield c
        for i, p in enumerate(case['pats']):
            if rs and rs['pat'] == i:
                continue     # (the reset instant is tied to its timeline)
            for sub in sub_pats(p):
                c = copy.deepcopy(case)
                c['pats'][i] = sub
                yield c
    kn = case['knobs']
    for key, val in (('stall_pm', 0), ('cost', 0.0), ('lat', 0),
                     ('time_yield', False)):
        if kn.get(key) != val:
            c = copy.deepcopy(case)
            c['knobs'][key] = val
            yield c


def sub_pats(p):
    import copy
    if p[0] == 'par':
        for x in p[1]:
            yield x
        for i in range(len(p[1])):
            if len(p[1]) > 1:
                q = copy.deepcopy(p)
                del q[1][i]
                yield q
    elif p[0] == 'seq':
        for x in p[1]:
            yield x
        for i in range(len(p[1])):
            if len(p[1]) > 1:
                q = copy.deepcopy(p)
                del q[1][i]
                yield q
    elif p[0] in ('dur', 'delta'):
        yield p[2]
    elif p[0] == 'chain':
        yield p[2]
    elif p[0] in ('bind', 'mono'):
        keys = p[1]
        n = len(keys['dur'])
        if n > 1:
            q = copy.deepcopy(p)
            q[1]['dur'] = q[1]['dur'][:n // 2]
            yield q
            q = copy.deepcopy(p)
            q[1]['dur'] = q[1]['dur'][1:]
            yield q
        for k in list(keys):
            if k != 'dur':
                q = copy.deepcopy(p)
                del q[1][k]
                yield q


# ------------------------------------------------------- key-chain model

def midicps(m):
    return 440.0 * 2.0 ** ((m - 69.0) / 12.0)


def dbamp(db):
    return 10.0 ** (db / 20.0)


def degree_to_key(scale, degree, spo=12):
    n = len(scale)
    return spo * (degree // n) + scale[int(degree) % n]


def resolve(ev):
    """Documented key chains, explicit keys first.  -> dict of resolved
    freq (detuned), amp, delta, sustain"""
    g = ev.get
    scale = SCALES[g('scale', 'major')]
    spo, ratio = steps_per_octave(g('scale', 'major'))
    if 'freq' in ev:
        freq = ev['freq']
    else:
        if 'midinote' in ev:
            midinote = ev['midinote']
        else:
            if 'note' in ev:
                note = ev['note']
            else:
                note = degree_to_key(scale, g('degree', 0)
                                     + g('mtranspose', 0), spo)
            # steps of the tuning -> octaves -> semitones
            midinote = ((note + g('gtranspose', 0.0) + g('root', 0.0)) / spo
                        + g('octave', 5.0) - 5.0) \
                * (12.0 * math.log2(ratio)) + 60
        freq = midicps(midinote + g('ctranspose', 0.0))
    freq0 = freq                      # what a lookup of 'freq' returns
    freq = freq * g('harmonic', 1.0) + g('detune', 0.0)   # what is played
    if 'amp' in ev:
        amp = ev['amp']
    elif 'db' in ev:
        amp = dbamp(ev['db'])
    elif 'velocity' in ev:
        amp = ev['velocity'] / 127
    else:
        amp = 0.1
    dur = ev.get('dur', 1.0)
    rest = False
    if isinstance(dur, list):          # ['rest', d]
        rest = True
        dur = dur[1]
    stretch = g('stretch', 1.0)
    delta = ev['delta'] if 'delta' in ev else dur * stretch
    sustain = ev['sustain'] if 'sustain' in ev \
        else dur * g('legato', 0.8) * stretch
    return {'freq': freq, 'freq0': freq0, 'amp': amp, 'delta': delta,
            'sustain': sustain, 'rest': rest}


ACTION_NUM = {'addToHead': 0, 'addToTail': 1, 0: 0, 1: 1}


def expected_msgs(ev, t, latency):
    """-> list of (time, kind, payload) for one played event at logical t"""
    r = resolve(ev)
    if r['rest']:
        return [], r
    instr = ev.get('instrument', 'default')
    ctls, has_gate = instr_of(ev)
    params = []
    for c in ctls:
        if c == 'gate' and has_gate:
            continue
        if c == 'freq':
            params += ['freq', r['freq']]      # always resolved by play()
        elif c in ev:
            params += [c, ev[c]]
    if ev.get('variant') is not None and ev['variant'] in VARIANTS.get(
            instr, ()):
        instr = f'{instr}.{ev["variant"]}'
    out = [(t + latency, 's_new',
            {'instr': instr, 'action': ACTION_NUM[ev.get('add_action',
                                                         'addToHead')],
             'group': ev.get('group', 1 if ev.get('_server') != 'other'
                             else (OTHER_CLIENT << 26) + 1),
             'client': OTHER_CLIENT if ev.get('_server') == 'other' else 0,
             'params': params, 'has_gate': has_gate})]
    if has_gate:
        out.append((t + latency + r['sustain'], 'gate_off', None))
    return out, r


MONO_ID = [0]


def expand(p, inherited=None):
    """pattern -> list of (offset, event keys) and total duration"""
    k = p[0]
    if k == 'mono' and len(p) > 3 and p[3]:
        # articulated: an event whose sustain reaches its delta starts (or
        # keeps) a node, one that ends before its delta releases the node
        # after its sustain - or, without a node, is an ordinary note
        evs, tot = expand(['bind', p[1], p[2]])
        node = None

        def close_voice(node, t_rel):
            MONO_ID[0] += 1
            for i, e in enumerate(node['evs']):
                e['_mono'] = (MONO_ID[0], i, t_rel - node['t0'],
                              len(node['evs']))
        for t, ev in evs:
            r = resolve(ev)
            if node is None:
                if r['sustain'] >= r['delta']:
                    node = {'t0': t, 'evs': [ev]}
            else:
                node['evs'].append(ev)
                if r['sustain'] < r['delta']:
                    close_voice(node, t + r['sustain'])
                    node = None
        if node is not None:
            close_voice(node, tot)
        return evs, tot
    if k == 'mono':
        evs, tot = expand(['bind', p[1], p[2]])
        MONO_ID[0] += 1
        for i, (t, ev) in enumerate(evs):
            ev['_mono'] = (MONO_ID[0], i, tot, len(evs))
        return evs, tot
    if k == 'bind':
        keys = p[1]
        n = min(len(v) for v in keys.values() if isinstance(v, list))
        out = []
        t = 0.0
        for i in range(n):
            ev = dict(inherited[i] if inherited else {})
            for kk, v in keys.items():
                ev[kk] = v[i] if isinstance(v, list) else v
            ev.setdefault('instrument', p[2])
            if inherited is None:
                ev['instrument'] = p[2]
            out.append([t, ev])
            t += resolve(ev)['delta']
        return out, t
    if k == 'chain' and p[1][0] == 'delta':
        inner, _ = expand(p[2])
        oks = p[1][2][1]
        lists = [v for v in oks.values() if isinstance(v, list)]
        if not inner:
            return [], 0.0
        out = [[0.0, None]]                 # the rest, instead of inner[0]
        t = float(p[1][1])
        n = min([len(inner) - 1] + [len(v) for v in lists])
        for i in range(n):
            ev = dict(inner[i + 1][1])
            for kk, v in oks.items():
                ev[kk] = v[i] if isinstance(v, list) else v
            out.append([t, ev])
            t += resolve(ev)['delta']
        return out, t
    if k == 'chain':
        inner, _ = expand(p[2])
        outer = p[1]
        oks = outer[1]
        lists = [v for v in oks.values() if isinstance(v, list)]
        n = min([len(inner)] + [len(v) for v in lists])
        out = []
        t = 0.0
        for i in range(n):
            ev = dict(inner[i][1])
            for kk, v in oks.items():
                ev[kk] = v[i] if isinstance(v, list) else v
            out.append([t, ev])
            t += resolve(ev)['delta']
        return out, t
    if k == 'delta':
        evs, tot = expand(p[2])
        # a silent event of the given length comes first in the stream
        return [[0.0, None]] + [[t + p[1], e] for t, e in evs], tot + p[1]
    if k == 'dur':
        evs, tot = expand(p[2])
        lim = p[1]
        out = []
        elapsed = 0.0
        for i, (t, e) in enumerate(evs):
            nxt = evs[i + 1][0] if i + 1 < len(evs) else tot
            out.append([t, e])
            if math.ceil(round(nxt / 0.001, 9)) * 0.001 >= lim:
                return out, lim
        return out, tot
    if k == 'par':
        out = []
        tot = 0.0
        for sub in p[1]:
            evs, d = expand(sub)
            out += evs
            tot = max(tot, d)
        out.sort(key=lambda x: x[0])
        return out, tot
    if k == 'seq':
        out = []
        tot = 0.0
        for sub in p[1]:
            evs, d = expand(sub)
            out += [[tot + t, e] for t, e in evs]
            tot += d
        return out, tot
    raise ValueError(p)


# -------------------------------------------------------------- worlds

def build_pattern(p):
    from sc3.seq.patterns.eventpatterns import Pbind, Ppar, Pchain
    from sc3.seq.patterns.listpatterns import Pseq
    from sc3.seq.patterns.filterpatterns import Pdur, Pdelta
    from sc3.seq.event import Rest
    import sc3.seq.scale as scl
    k = p[0]
    if k == 'bind':
        d = {}
        for kk, v in p[1].items():
            if kk == 'scale':
                d[kk] = make_scale(v)
            elif isinstance(v, list):
                d[kk] = Pseq([Rest(x[1]) if isinstance(x, list) else x
                              for x in v])
            else:
                d[kk] = v
        d['instrument'] = p[2]
        return Pbind(d)
    if k == 'mono':
        from sc3.seq.patterns.eventpatterns import Pmono
        b = build_pattern(['bind', p[1], p[2]])
        b.dict.pop('instrument', None)
        return Pmono(p[2], b.dict, articulate=len(p) > 3 and bool(p[3]))
    if k == 'chain' and p[1][0] == 'delta':
        a = build_pattern(p[1][2])
        a.dict.pop('instrument', None)
        return Pchain(Pdelta(p[1][1], a), build_pattern(p[2]))
    if k == 'chain':
        a = build_pattern(p[1])
        a.dict.pop('instrument', None)
        return Pchain(a, build_pattern(p[2]))
    if k == 'delta':
        return Pdelta(p[1], build_pattern(p[2]))
    if k == 'dur':
        return Pdur(p[1], build_pattern(p[2]))
    if k == 'par':
        return Ppar(*[build_pattern(x) for x in p[1]])
    if k == 'seq':
        return Pseq([build_pattern(x) for x in p[1]])
    raise ValueError(p)


OTHER_ADDR = ('127.0.0.1', 57150)
OTHER_CLIENT = 2
_OTHER = []


def other_server():
    import sc3.synth.server as ssrv
    import sc3.base.netaddr as snad
    if not _OTHER or _OTHER[0][0] is not ssrv.Server.default:
        o = ssrv.ServerOptions()
        o.max_logins = 4
        s2 = ssrv.Server('other', snad.NetAddr(*OTHER_ADDR), o)
        s2._status_watcher._handle_login_done(OTHER_CLIENT, 4)
        s2.latency = ssrv.Server.default.latency
        _OTHER[:] = [(ssrv.Server.default, s2)]
    return _OTHER[0][1]


def make_event(ev):
    from sc3.seq.event import event, Rest
    import sc3.seq.scale as scl
    d = {}
    if ev.get('_server') == 'other':
        d['server'] = other_server()
    for k, v in ev.items():
        if k.startswith('_'):
            continue                  # model-only annotation
        if k == 'scale':
            d[k] = make_scale(v)
        elif isinstance(v, list):
            d[k] = Rest(v[1])
        else:
            d[k] = v
    return event(d)


def define_instruments():
    import sc3.synth.synthdef as sdf
    import sc3.synth.ugens as u
    from sc3.synth.systemdefs import SystemDefs

    def nogate(freq=440, amp=0.1, pan=0, out=0):
        u.Out.ar(out, u.Pan2.ar(u.SinOsc.ar(freq) * u.Line.kr(
            amp, 0, 0.5, done_action=2), pan))
    SystemDefs.add_synthdef('default')
    SystemDefs.add_synthdef('test')
    sdf.SynthDef('nogate', nogate).add()
    import sc3.synth.envelope as evp

    def vari(freq=440, amp=0.1, pan=0, out=0, gate=1):
        u.Out.ar(out, u.Pan2.ar(u.SinOsc.ar(freq) * amp * u.EnvGen.kr(
            evp.Env.asr(), gate, done_action=2), pan))
    sdf.SynthDef('vari', vari, variants={'low': {'freq': 110},
                                         'wide': {'pan': 1}}).add()


def define_user(variant):
    import sc3.synth.synthdef as sdf
    import sc3.synth.ugens as u
    import sc3.synth.envelope as evp

    def v0(freq=440, amp=0.1, gate=1):
        u.Out.ar(0, u.SinOsc.ar(freq) * amp * u.EnvGen.kr(
            evp.Env.asr(), gate, done_action=2))

    def v1(freq=440, amp=0.1, pan=0, out=0, gate=1):
        u.Out.ar(out, u.Pan2.ar(u.SinOsc.ar(freq) * amp * u.EnvGen.kr(
            evp.Env.asr(), gate, done_action=2), pan))

    def v2(out=0, freq=440, pan=0):
        u.Out.ar(out, u.Pan2.ar(u.SinOsc.ar(freq) * u.Line.kr(
            0.1, 0, 0.5, done_action=2), pan))
    sdf.SynthDef('user', [v0, v1, v2][variant]).add()


def program(case, main, lookups):
    import sc3.base.stream as sstm
    import sc3.base.clock as sclk

    def body(inval):
        define_instruments()
        clock = sclk.TempoClock(1) if case['clock'] == 'tempo' else None
        redef = case.get('redef')
        if redef:
            define_user(redef[0])
        if case['kind'] == 'single':
            for i, ev in enumerate(case['events']):
                if redef and i == redef[2]:
                    define_user(redef[1])
                e = make_event(ev)
                lookups.append({k: float(e(k)) for k in
                                ('freq', 'amp', 'delta', 'sustain')})
                e.play()
                if ev.get('_again'):
                    changes, as_copy = ev['_again']
                    e2 = e.copy() if as_copy else e
                    for kk, v in changes.items():
                        e2[kk] = v
                    e2.play()
        else:
            players = []
            for p in case['pats']:
                if clock is not None:
                    players.append(build_pattern(p).play(clock, 0))
                else:
                    players.append(build_pattern(p).play())
            if case.get('mute'):
                for pl in players:
                    pl.mute()
                yield case['mute']
                for pl in players:
                    pl.unmute()
            rs = case.get('reset')
            if rs:
                yield rs['at']
                try:
                    players[rs['pat']].reset()
                except RuntimeError as e:
                    # (a StopStream thrown into a generator that does not
                    # handle it comes back as RuntimeError, PEP 479: what a
                    # reset does then is not specified by the property)
                    lookups.append({'reset_raised': type(e).__name__})
        yield 0
    return sstm.Routine(body)


def run_nrt(case, tape, emit):
    from sim import world
    w = world.NrtWorld(seed=3).boot()
    main = w.main
    import sc3.base.clock as sclk
    lookups = []
    sclk.SystemClock.sched_abs(T0, program(case, main, lookups))
    try:
        score = main.process(0)
    except Exception as e:
        r = W.nrt_failed(e, [], w)
        r['lookups'] = lookups
        return r
    lst = []
    for b in score.list:
        lst.append([b[0]] + [[('<bytes>' if isinstance(x, (bytes, memoryview))
                               else x) for x in el] for el in b[1:]])
    return {'outcome': 'ok', 'score': lst, 'elapsed': main.elapsed_time(),
            'lookups': lookups, 'errors': [r[:3] for r in w.error_logs()]}


def run_rt(case, tape, emit):
    from sim import world
    import sc3.synth.server as ssrv
    import sc3.base.clock as sclk
    w = world.RtWorld(tape, dict(case['knobs']), seed=3).boot()
    k = w.kernel
    main = w.main
    fake = FS.FakeServer(w.net)
    fake2 = FS.FakeServer(w.net, addr=OTHER_ADDR)
    lookups = []
    done = [False]

    def finalize(outcome):
        if done[0]:
            return None
        done[0] = True
        k.freeze()
        msgs = []
        for now, tt, m in sorted(fake.messages + fake2.messages,
                                 key=lambda x: x[0]):
            if m.addr == '/d_recv':
                continue
            msgs.append([tt, m.aslist(), now])
        return {'outcome': outcome, 'msgs': msgs,
                'malformed': [x[1] for x in (fake.malformed
                                             + fake2.malformed)[:3]],
                'lookups': lookups,
                'offset': sclk.SystemClock._elapsed_osc_offset,
                'latency': ssrv.Server.default.latency,
                'errors': [r[:3] for r in w.error_logs()],
                'k': W.kstats(k)}

    k.on_finish = lambda oc: emit(finalize(oc))
    sclk.SystemClock.sched_abs(T0, program(case, main, lookups))
    k.wait_idle(k.now + 3600.0)
    return finalize('ok')


# -------------------------------------------------------------- oracle

def close(a, b, rel):
    if isinstance(a, (int, float)) and isinstance(b, (int, float)) \
            and not isinstance(a, bool) and not isinstance(b, bool):
        return abs(a - b) <= rel * max(1.0, abs(a), abs(b))
    return a == b


def check_bundles(world, got, case, latency, viol, stats, rel, lo=1000,
                  hi=(1 << 26)):
    """got: list of (time, msg list).  Match against the model."""
    exp = []
    if case['kind'] == 'single':
        for ev in case['events']:
            e, r = expected_msgs(ev, T0, latency)
            exp.append((e, ev))
            if ev.get('_again'):
                ev2 = {k: v for k, v in ev.items() if k != '_again'}
                ev2.update(ev['_again'][0])
                e, r = expected_msgs(ev2, T0, latency)
                exp.append((e, ev2))
                stats['event-played-again'] = stats.get(
                    'event-played-again', 0) + 1
    else:
        _CACHE.clear()
        for i, p in enumerate(case['pats']):
            for t, ev in timeline(case, i, p)[0]:
                if ev is None:
                    continue            # silent filler (Pdelta)
                if case.get('mute') and t < case['mute']:
                    stats['muted-events'] = stats.get('muted-events', 0) + 1
                    continue            # played while the player was muted
                e, r = expected_msgs(ev, T0 + t, latency)
                exp.append((e, ev))
    # Pmono voices first: their commands are taken out of `got`
    mono = {}
    rest_exp = []
    for e, ev in exp:
        if '_mono' in ev:
            mono.setdefault(ev['_mono'][0], []).append(ev)
        else:
            rest_exp.append((e, ev))
    exp = rest_exp
    got = list(got)
    mono_ids = set()
    if mono:
        times = {}
        if case['kind'] != 'single':
            for p in case['pats']:
                for t, ev in expand_cached(p):
                    if ev is not None and '_mono' in ev:
                        times[(ev['_mono'][0], ev['_mono'][1])] = T0 + t
        for gid, evs in mono.items():
            if not check_mono(world, got, gid, evs, times, latency, viol,
                              stats, rel, mono_ids):
                return
    snew = [(t, m) for t, m in got if m[0] == '/s_new']
    gates = [(t, m) for t, m in got if m[0] == '/n_set']
    other = [(t, m) for t, m in got
             if m[0] not in ('/s_new', '/n_set', '/g_new', '/c_set',
                             '/d_recv')]   # (Pmono's were removed above)
    if other:
        viol.add('C14-1', f'{world}-unexpected-command',
                 f'{world}: unexpected command {other[0]}')
    want_new = [(e[0], ev) for e, ev in exp if e]
    stats['note-events'] = stats.get('note-events', 0) + len(want_new)
    stats['rests'] = stats.get('rests', 0) + sum(1 for e, ev in exp if not e)
    if len(snew) != len(want_new):
        viol.add('C14-1', f'{world}-synth-count',
                 f'{world}: {len(snew)} /s_new bundle(s), the program plays '
                 f'{len(want_new)} note event(s) '
                 f'(times {[round(t, 4) for t, _ in snew][:8]} vs '
                 f'{[round(e[0], 4) for e, _ in want_new][:8]})')
        return
    # match by time then content
    pool = list(snew)
    ids = {}
    seen_ids = set()
    servers_used = {pay.get('client', 0) for (_, _, pay), _ in want_new}
    for (t, kind, pay), ev in sorted(want_new, key=lambda x: x[0][0]):
        hit = None
        want_off0 = t + resolve(ev)['sustain']
        for i, (gt, gm) in enumerate(pool):
            if abs(gt - t) > 1e-6:
                continue
            if gm[1] != pay['instr']:
                continue
            if len(servers_used) > 1 and \
                    (gm[2] >> 26) != pay.get('client', 0):
                # (two servers are two wires: a creation on the other
                # server, told by its client's id range, is not this one)
                continue
            if params_match(gm[5:], pay['params'], rel):
                # identical creations at the same instant: prefer the one
                # whose release fits this event
                offs0 = [x for x in gates if x[1][1] == gm[2]]
                if hit is None:
                    hit = i
                if pay['has_gate']:
                    fits = bool(offs0) and abs(offs0[0][0] - want_off0) <= 1e-6
                else:
                    fits = not offs0
                if fits:
                    hit = i
                    break
        if hit is None:
            near = [(round(gt, 6), gm) for gt, gm in pool
                    if abs(gt - t) < 1e-6][:2]
            viol.add('C14-1', f'{world}-synth-mismatch',
                     f'{world}: no /s_new at {t} for instrument '
                     f'{pay["instr"]} with controls {pay["params"]} '
                     f'(event {ev}); at that time: {near}; all times '
                     f'{[round(gt, 4) for gt, _ in pool][:8]}')
            return
        gt, gm = pool.pop(hit)
        nid = gm[2]
        if nid in seen_ids or not (lo <= (nid & 0x03FFFFFF)) \
                or (nid >> 26) != pay.get('client', 0):
            viol.add('C14-1', f'{world}-node-id',
                     f'{world}: node id {nid} reused or outside the '
                     f'client\'s range')
        seen_ids.add(nid)
        if gm[3] != pay['action'] or gm[4] != pay['group']:
            viol.add('C14-1', f'{world}-action-or-group',
                     f'{world}: /s_new {gm[:5]}: expected add action '
                     f'{pay["action"]}, group {pay["group"]}')
        ids.setdefault((round(t, 6)), []).append((nid, ev))
        # gate off
        r = resolve(ev)
        has_gate = pay['has_gate']
        want_off = t + r['sustain']
        offs = [(i, x) for i, x in enumerate(gates) if x[1][1] == nid]
        if has_gate:
            if len(offs) != 1 or offs[0][1][1][2:] != ['gate', 0]:
                viol.add('C14-2', f'{world}-gate-off-count',
                         f'{world}: node {nid} (instrument with gate) got '
                         f'{[x[1] for x in offs]} instead of one gate-off')
            elif abs(offs[0][1][0] - want_off) > 1e-6:
                viol.add('C14-2', f'{world}-gate-off-time',
                         f'{world}: gate-off of node {nid} at '
                         f'{offs[0][1][0]}, expected start + latency + '
                         f'sustain = {want_off} (event {ev})')
            stats['gate-offs'] = stats.get('gate-offs', 0) + 1
        elif offs:
            viol.add('C14-2', f'{world}-gate-off-without-gate',
                     f'{world}: instrument {pay["instr"]} has no gate but '
                     f'node {nid} got {offs[0][1][1]}')
    stray = [x for x in gates if x[1][1] not in seen_ids
             and x[1][1] not in mono_ids]
    if stray:
        viol.add('C14-2', f'{world}-stray-set',
                 f'{world}: /n_set for unknown node {stray[0][1]}')


_CACHE = {}


def wakes(p):
    """Offsets at which the player of pattern p wakes up: its events (rests
    and silent fillers included), the end of every stream that a Ppar merges,
    and the end of the whole stream."""
    k = p[0]
    evs, tot = expand(p)
    if k == 'par':
        out = set()
        for sub in p[1]:
            out |= wakes(sub)
        return out | {tot}
    if k == 'delta':
        return {0.0} | {p[1] + t for t in wakes(p[2])} | {tot}
    if k == 'seq':
        out, at = set(), 0.0
        for sub in p[1]:
            d = expand(sub)[1]
            out |= {at + t for t in wakes(sub) if t < d or sub is p[1][-1]}
            at += d
        return out | {tot}
    if k == 'dur':
        # the event starting at t is reached only if the one before it did
        # not already end within the tolerance of the limit
        return {t for t in wakes(p[2]) if t < tot and (
            t == 0 or math.ceil(round(t / 0.001, 9)) * 0.001 < p[1])} \
            | {t for t, _ in evs} | {tot}
    return {t for t, _ in evs} | {tot}


def timeline(case, i, p):
    """(offset, event) list and total duration of top-level pattern i; with a
    player reset at offset T the stream starts again from its first event at
    the player's next wake-up after T."""
    evs, tot = expand_cached(p), expand(p)[1]
    rs = case.get('reset')
    if not rs or rs['pat'] != i:
        return evs, tot
    later = sorted(t for t in wakes(p) if t > rs['at'] + 1e-9)
    if not later:
        return evs, tot
    t1 = later[0]
    out = [(t, ev) for t, ev in evs if t <= rs['at'] + 1e-9]
    out += [(t1 + t, None if ev is None else dict(ev)) for t, ev in evs]
    return out, t1 + tot


def expand_cached(p):
    key = id(p)
    if key not in _CACHE:
        _CACHE[key] = expand(p)[0]
    return _CACHE[key]


DEFAULTS = {'pan': 0.0, 'out': 0, 'trig': 0.5}


def check_mono(world, got, gid, evs, times, latency, viol, stats, rel,
               mono_ids):
    """One Pmono voice: /s_new for its first event, /n_set with the same
    controls for every later non-rest event, release (gate 0 or /n_free) at
    the end of the stream."""
    evs = sorted(evs, key=lambda ev: ev['_mono'][1])
    first = evs[0]
    _, _, tot, n = first['_mono']
    t0 = times[(gid, 0)]
    e0, r0 = expected_msgs({k: v for k, v in first.items() if k != '_mono'},
                           t0, latency)
    pay = e0[0][2]
    names = pay['params'][::2]
    cands = [i for i, (gt, gm) in enumerate(got)
             if gm[0] == '/s_new' and abs(gt - e0[0][0]) <= 1e-6
             and gm[1] == pay['instr']
             and params_match(gm[5:], pay['params'], rel)]
    if not cands:
        viol.add('C14-5', f'{world}-mono-synth',
                 f'{world}: Pmono voice: no /s_new at {e0[0][0]} for '
                 f'{pay["instr"]} with {pay["params"]}; '
                 f'got {[(round(t, 4), m) for t, m in got][:4]}')
        return False
    if len(cands) > 1:
        # identical creations at one instant (another voice or a note
        # event): take the one whose later commands fit this voice
        for c in cands:
            trial = list(got)
            tv = C.Violations()
            nid_c = trial[c][1][2]
            trial2 = trial[:c] + trial[c + 1:]
            if _mono_rest(world, trial2, nid_c, gid, evs, names, times,
                          t0, tot, latency, pay, tv, {}, rel):
                cands = [c]
                break
    hit = cands[0]
    nid = got.pop(hit)[1][2]
    mono_ids.add(nid)
    stats['mono-voices'] = stats.get('mono-voices', 0) + 1
    return _mono_rest(world, got, nid, gid, evs, names, times, t0, tot,
                      latency, pay, viol, stats, rel)


def _mono_rest(world, got, nid, gid, evs, names, times, t0, tot, latency,
               pay, viol, stats, rel):
    for ev in evs[1:]:
        r = resolve(ev)
        if r['rest']:
            continue
        t = times[(gid, ev['_mono'][1])] + latency
        want = []
        for nm in names:
            if nm == 'freq':
                v = r['freq']
            elif nm == 'amp':
                v = r['amp']
            elif nm in ev:
                v = ev[nm]
            else:
                v = DEFAULTS.get(nm)
            want += [nm, v]
        hit = None
        for i, (gt, gm) in enumerate(got):
            if gm[0] == '/n_set' and gm[1] == nid and abs(gt - t) <= 1e-6 \
                    and params_match(gm[2:], want, rel):
                hit = i
                break
        if hit is None:
            near = [(round(gt, 5), gm) for gt, gm in got if gm[1:2] == [nid]]
            viol.add('C14-5', f'{world}-mono-set',
                     f'{world}: Pmono voice on node {nid}: no /n_set {want} '
                     f'at {t}; commands for that node: {near[:4]}')
            return False
        got.pop(hit)
        stats['mono-sets'] = stats.get('mono-sets', 0) + 1
    # release at the end of the stream
    t_end = t0 + tot + latency
    has_gate = pay['has_gate']
    want = ['/n_set', nid, 'gate', 0] if has_gate else ['/n_free', nid]
    hit = None
    for i, (gt, gm) in enumerate(got):
        if gm == want and abs(gt - t_end) <= 1e-6:
            hit = i
            break
    if hit is None:
        near = [(round(gt, 5), gm) for gt, gm in got if gm[1:2] == [nid]
                or gm[:1] == ['/n_free']]
        viol.add('C14-5', f'{world}-mono-release',
                 f'{world}: Pmono voice on node {nid}: no {want} at {t_end} '
                 f'(end of the stream); got {near[:4]}')
        return False
    got.pop(hit)
    left = [gm for gt, gm in got if gm[1:2] == [nid]]
    if left:
        viol.add('C14-5', f'{world}-mono-extra',
                 f'{world}: extra commands for Pmono node {nid}: {left[:3]}')
        return False
    return True


def params_match(got, want, rel):
    if len(got) != len(want):
        return False
    return all(close(a, b, rel) for a, b in zip(got, want))


def run_case(case, tape, ctx):
    viol = C.Violations()
    stats = {}
    if case.get('redef'):
        stats['instrument-redefined'] = 1
    if "'mono'" in repr(case.get('pats')) and ", True]" in repr(
            case.get('pats')):
        stats['articulated-mono-patterns'] = 1
    if "'seq'" in repr(case.get('pats')):
        stats['sequenced-patterns'] = 1
    nrt = S.subrun(tape, lambda st, emit: run_nrt(case, st, emit))
    rt = S.subrun(tape, lambda st, emit: run_rt(case, st, emit))
    agg = W.combine([rt])
    if rt['outcome'] != 'ok':
        return W.result(viol, agg, outcome=rt['outcome'])
    # NRT: score entries (latency 0)
    if nrt['errors']:
        viol.add('C14-1', 'nrt-error-logged', str(nrt['errors'][0]))
    if W.process_raised(viol, 'C14-1', nrt):
        return W.result(viol, agg)
    if any('reset_raised' in x for x in nrt['lookups'] + rt.get(
            'lookups', [])):
        stats['reset-raised-no-verdict'] = 1
        return W.result(viol, agg, extra_probes=stats)
    if case.get('reset'):
        stats['player-reset'] = 1
    got = [(b[0], b[1]) for b in nrt['score'] if len(b) == 2]
    check_bundles('nrt', got, case, 0.0, viol, stats, 1e-9)
    # key lookups
    if case['kind'] == 'single':
        for ev, lk in zip(case['events'], nrt['lookups']):
            r = resolve(ev)
            for key in ('freq', 'amp', 'delta', 'sustain'):
                stats['lookups'] = stats.get('lookups', 0) + 1
                want = r['freq0'] if key == 'freq' else r[key]
                if not close(lk[key], want, 1e-9):
                    viol.add('C14-3', f'key-{key}',
                             f'event {ev}: {key} resolves to {lk[key]}, '
                             f'documented chain gives {want}')
    else:
        # the players end after the longest top-level pattern
        tot = max(timeline(case, i, p)[1]
                  for i, p in enumerate(case['pats']))
        if case.get('mute'):
            # (the routine that unmutes the players is a task of the run too)
            tot = max(tot, case['mute'])
        if abs(nrt['elapsed'] - (T0 + tot)) > 1e-9 * max(1.0, tot):
            viol.add('C14-4', 'total-duration',
                     f'the players ended at {nrt["elapsed"]}, start + total '
                     f'duration is {T0 + tot}')
    # RT: what the fake server received
    if rt['errors']:
        viol.add('C14-1', 'rt-error-logged', str(rt['errors'][0]))
    if rt['malformed']:
        viol.add('C14-1', 'rt-nonconforming-command', str(rt['malformed'][0]))
    off = rt['offset']
    got = []
    for tt, m, now in rt['msgs']:
        if tt is None or tt == 1:
            got.append((None, m))
        else:
            got.append(((tt - off) * TICK, m))
    timed = [(t, m) for t, m in got if t is not None]
    untimed = [m for t, m in got if t is None
               and m[0] in ('/s_new', '/n_set')]
    if untimed:
        viol.add('C14-1', 'rt-untimed-command',
                 f'rt: {untimed[0]} was sent without a timetag')
    check_bundles('rt', timed, case, rt['latency'], viol, stats, 1e-6)
    sample = {k: case[k] for k in ('kind', 'clock')}
    sample['program'] = (case.get('events') or case.get('pats'))[:2]
    return W.result(viol, agg, nontrivial=agg['contended'] > 0
                    and stats.get('note-events', 0) > 0, sample=sample,
                    extra_probes=stats, features=[case['kind']])
