"""C05 - logical time in routines is exact and independent of physical
jitter.  Each case is one program of nested routines run in several worlds:
RT fault-free, RT under two different fault/schedule tapes, and NRT; the
logical-time traces are compared with an independent model and with each
other (bit-exact across RT schedules)."""

from sim import subrun as S
from . import common as C
from . import rprog
from . import rworlds as W

ID = 'C05'
QUICK_RUNS = 700
THOROUGH_SECONDS = 480
TOL = 1e-9

COMPONENTS = {
    'real': 'sc3 RtMain/NrtMain, SystemClock, TempoClock, AppClock (NRT), '
            'Routine, TimeThread, ClockScheduler/ClockTask',
    'stub': 'threading primitives, time, socket (RT); nothing in NRT'}


def scenario_late_parent(tp):
    """Directed template: a TempoClock is kept busy by a marker routine
    while a parent on SystemClock, woken late (loaded machine), plays
    children on that TempoClock: each child begins at its parent's logical
    time although the clock has served later beats meanwhile."""
    tempo = tp.choice([1, 2, 4])
    marker = [['rec']]
    for _ in range(24 + tp.draw(24)):
        marker += [['wait', tp.choice([1 / 32, 1 / 16, 1 / 64])], ['rec']]
    routines = [{'clock': 'sys', 'quant': None, 'seed': None,
                 'body': [['rec'], ['spawn', 1]]},
                {'clock': 't0', 'quant': 0, 'seed': None, 'body': marker}]
    for i in range(2 + tp.draw(3)):
        cid = len(routines)
        routines[0]['body'] += [['wait', tp.choice([0.125, 0.25, 0.1875])],
                                ['rec'], ['spawn', cid]]
        routines.append({'clock': 't0', 'quant': 0, 'seed': None,
                         'body': [['rec'], ['wait', 0.5], ['rec'],
                                  ['wait', 0.25], ['rec']]})
    return {'t0': rprog.T0, 'clocks': [{'tempo': tempo, 'beats': 0}],
            'routines': routines}


def gen_case(tp, tier):
    if tp.draw(10) == 0:
        prog = scenario_late_parent(tp)
        ff = C.gen_knobs(tp, fault_free_pm=1000)
        k1 = C.gen_knobs(tp, fault_free_pm=0)
        k2 = C.gen_knobs(tp, fault_free_pm=0)
        k1['lat'] = 5
        k2['lat'] = tp.choice([5, 3])
        k2['line_mean'] = 0
        return {'prog': prog, 'knobs': [ff, k1, k2], 'driver': [],
                'scenario': 'late-parent'}
    feat = {'tempo_clocks': True, 'init_beats': tp.draw(2) == 0,
            'odd_deltas': tp.draw(2) == 0, 'app': tp.draw(5) == 0,
            'embed': True, 'inf_wait': True}
    prog = rprog.gen(tp, feat, tier)
    ff = C.gen_knobs(tp, fault_free_pm=1000)
    k1 = C.gen_knobs(tp, fault_free_pm=0)
    k2 = C.gen_knobs(tp, fault_free_pm=0)
    # a subset of the faulty runs pre-empts at LINE level inside the time
    # keeping code (base/main.py, clock.py, stream.py) ...
    k2['line_mean'] = tp.choice([0, 0, 2, 4, 12, 40])
    if k2['line_mean']:
        k2['lat'] = tp.choice([0, 0, 1])
        k2['stall_pm'] = 0
        k2['max_steps'] = 200000
    # ... while the main thread reads the time at the very instants at
    # which the program's routines are due
    drv = []
    if tp.draw(2) == 0 or k2['line_mean']:
        m = rprog.Model(prog).run()
        times = sorted({round(ev[2], 9) for ev in m.events
                        if ev[0] in ('wait', 'spawn')})[:12]
        for t in times:
            if tp.draw(2):
                drv.append(['at', t])
                for _ in range(1 + tp.draw(2)):
                    drv.append(['read', tp.choice(
                        ['sys'] + [f't{i}' for i in
                                   range(len(prog['clocks']))])])
    return {'prog': prog, 'knobs': [ff, k1, k2], 'driver': drv}


def shrink_candidates(case):
    import copy
    for p in rprog.shrink_candidates(case['prog']):
        c = copy.deepcopy(case)
        c['prog'] = p
        yield c
    if len(case['knobs']) > 2:
        c = copy.deepcopy(case)
        c['knobs'] = c['knobs'][:2]
        yield c
    drv = case.get('driver') or []
    for j in range(len(drv) - 1, -1, -1):
        c = copy.deepcopy(case)
        del c['driver'][j]
        yield c


def recs_by_routine(trace):
    out = {}
    for e in trace:
        if e['ev'] == 'rec':
            out.setdefault(e['r'], []).append(e)
    return out


def close(a, b, tol=TOL):
    return abs(a - b) <= tol * max(1.0, abs(a), abs(b))


def check_world(name, res, model, viol, prog, stats):
    if res['errors']:
        viol.add('C05-1', f'{name}-error-logged',
                 f'{name}: error logged while running the program: '
                 f'{res["errors"][0]}')
    got = recs_by_routine(res['trace'])
    for rid, mrecs in model.recs.items():
        g = got.get(rid, [])
        cname = prog['routines'][rid]['clock']
        if len(g) != len(mrecs):
            viol.add('C05-1', f'{name}-{cname[0]}-resumption-count',
                     f'{name}: routine {rid} on {cname} recorded {len(g)} '
                     f'times, model expects {len(mrecs)}')
        for a, m in zip(g, mrecs):
            stats['recs-compared'] = stats.get('recs-compared', 0) + 1
            ok = close(a['secs'], m['secs']) and close(a['beats'], m['beats'])
            if not ok and 'alt_secs' in m:
                ok = close(a['secs'], m['alt_secs']) and close(
                    a['beats'], m['alt_beats'])
                stats['grid-ambiguous'] = stats.get('grid-ambiguous', 0) + 1
            if not ok:
                viol.add(
                    'C05-1', f'{name}-{cname[0]}-logical-time',
                    f'{name}: routine {rid} on {cname}, resumption '
                    f'{a["k"]}: logical time {a["secs"]} s / {a["beats"]} '
                    f'beats, model {m["secs"]} s / {m["beats"]} beats')
                break
            if not a['cur_is_self'] or a['cur_secs'] != a['secs']:
                viol.add('C05-3', f'{name}-current-thread',
                         f'{name}: inside routine {rid} current_tt is self: '
                         f'{a["cur_is_self"]}, its seconds {a["cur_secs"]} '
                         f'vs clock.seconds {a["secs"]}')
            if not a['clock_ok']:
                viol.add('C05-3', f'{name}-clock-arg',
                         f'{name}: routine {rid} was resumed with a clock '
                         f'that is not the one it was played on')
    # child start == parent's logical time at the spawn (non-tempo clocks,
    # and tempo clocks with quant 0)
    spawns = {}
    for e in res['trace']:
        if e['ev'] == 'spawn':
            spawns[e['child']] = e['secs']
    for cid, psecs in spawns.items():
        cdef = prog['routines'][cid]
        g = got.get(cid, [])
        if not g or not cdef['body'] or cdef['body'][0][0] != 'rec':
            continue
        if not cdef['clock'].startswith('t'):
            stats['child-start-checked'] = stats.get(
                'child-start-checked', 0) + 1
            if g[0]['secs'] != psecs:
                viol.add('C05-2', f'{name}-{cdef["clock"][0]}-child-start',
                         f'{name}: routine {cid} on {cdef["clock"]} started '
                         f'at {g[0]["secs"]}, parent was at {psecs}')
        elif cdef['quant'] == 0:
            stats['child-start-checked'] = stats.get(
                'child-start-checked', 0) + 1
            if not close(g[0]['secs'], psecs):
                viol.add('C05-2', f'{name}-t-child-start',
                         f'{name}: routine {cid} (quant 0) started at '
                         f'{g[0]["secs"]}, parent was at {psecs}')


def run_case(case, tape, ctx):
    prog = case['prog']
    viol = C.Violations()
    stats = {}
    ne = sum(1 for r in case['prog']['routines'] for st in r['body']
             if st[0] == 'embed')
    if ne:
        stats['embedded-routines'] = ne
    if case.get('scenario'):
        stats['scenario-' + case['scenario']] = 1
    model = rprog.Model(prog).run()
    has_app = any(r['clock'] == 'app' and r['body']
                  for r in prog['routines'])
    subs = []
    names = []
    if not has_app:
        for i, kn in enumerate(case['knobs']):
            kn = dict(kn)
            res = S.subrun(tape, lambda st, emit, kn=kn: W.run_rt(
                prog, kn, st, emit, driver=case.get('driver')))
            subs.append(res)
            names.append('rt-ff' if kn.get('fault_free') else f'rt-f{i}')
    else:
        stats['app-program-nrt-only'] = 1
    nrt = S.subrun(tape, lambda st, emit: W.run_nrt(prog, st, emit))
    agg = W.combine(subs)
    bad = [s for s in subs if s['outcome'] != 'ok']
    if bad:
        return W.result(viol, agg, outcome=bad[0]['outcome'])
    if W.process_raised(viol, 'C05-4', nrt):
        return W.result(viol, agg)
    for name, res in zip(names, subs):
        check_world(name, res, model, viol, prog, stats)
        if res['thread_exc']:
            viol.add('C05-1', 'thread-died', str(res['thread_exc']))
    check_world('nrt', nrt, model, viol, prog, stats)
    # bit-exact equality of the logical-time traces across RT schedules
    if len(subs) > 1:
        base = recs_by_routine(subs[0]['trace'])
        for name, res in zip(names[1:], subs[1:]):
            other = recs_by_routine(res['trace'])
            for rid in base:
                a = [(e['secs'], e['beats']) for e in base[rid]]
                b = [(e['secs'], e['beats']) for e in other.get(rid, [])]
                if a != b:
                    cname = prog['routines'][rid]['clock']
                    viol.add(
                        'C05-1', f'{cname[0]}-differs-across-schedules',
                        f'routine {rid} on {cname}: logical times differ '
                        f'between {names[0]} and {name}: '
                        f'{first_diff(a, b)}')
                    break
        stats['cross-schedule-compared'] = len(subs) - 1
    # NRT: logical time never decreases; elapsed time ends at the last instant
    prev = None
    for e in nrt['trace']:
        s = e.get('secs')
        if s is None:
            continue
        # (a child placed on a TempoClock goes seconds -> beats -> seconds;
        # that round trip may land one ulp before the parent's instant)
        if prev is not None and s < prev - TOL * max(1.0, abs(prev)):
            viol.add('C05-4', 'nrt-time-decreases',
                     f'NRT: logical time went from {prev} to {s} '
                     f'(routine {e["r"]}, {e["ev"]})')
            break
        prev = s
    last = max([ev[-1] if ev[0] in ('end',) else ev[2]
                for ev in model.events if ev[0] in ('wait', 'end')]
               or [prog['t0']])
    if model.ambiguous:
        stats['elapsed-end-skipped-grid-ambiguous'] = 1
    elif not close(nrt['elapsed'], last):
        viol.add('C05-4', 'nrt-elapsed-end',
                 f'NRT: elapsed_time() after process() is {nrt["elapsed"]}, '
                 f'last scheduled instant is {last}')
    sample = {'routines': [
        {'clock': r['clock'], 'quant': r['quant'], 'body': r['body'][:8]}
        for r in prog['routines'][:3]], 'clocks': prog['clocks']}
    return W.result(viol, agg, nontrivial=agg['contended'] > 0 or has_app,
                    sample=sample, extra_probes=stats,
                    features=['app'] if has_app else [])


def first_diff(a, b):
    for i, (x, y) in enumerate(zip(a, b)):
        if x != y:
            return f'index {i}: {x} vs {y}'
    return f'lengths {len(a)} vs {len(b)}'
