"""Corpus of graph functions for C20 (built by name; sc3 must be initialised
before build())."""


def _u():
    import sc3.synth.ugens as u
    return u


def g_sine(freq=440, amp=0.1):
    u = _u()
    u.Out.ar(0, u.SinOsc.ar(freq) * amp)


def g_sum(freq=220, a=0.1, b=0.2, c=0.3):
    u = _u()
    s1 = u.SinOsc.ar(freq)
    s2 = u.Saw.ar(freq * 2)
    s3 = u.Pulse.ar(freq * 3)
    s4 = u.LFTri.ar(freq * 4)
    mix = s1 * a + s2 * b + s3 * c + s4
    u.Out.ar(0, mix - (-s1) + 0 * s2)


def g_muladd(freq=100, mul=0.5, add=0.25):
    u = _u()
    x = u.SinOsc.ar(freq, 0) * mul + add
    y = u.LFSaw.kr(2) * 3 + 1
    u.Out.ar(0, x * y)


def g_multichannel(freq=300):
    u = _u()
    sig = u.SinOsc.ar([freq, freq * 1.5, freq * 2], 0) * [0.1, 0.2]
    u.Out.ar(0, u.Mix(sig))


def g_pan_env(freq=440, gate=1, pan=0):
    u = _u()
    import sc3.synth.envelope as evp
    env = u.EnvGen.kr(evp.Env.adsr(0.01, 0.2, 0.7, 0.3), gate, done_action=2)
    u.Out.ar(0, u.Pan2.ar(u.LPF.ar(u.Saw.ar(freq), freq * 4) * env, pan))


_ENV = []
POINTS = [[0, 0], [0.1, 1], [1, 0]]


def g_env_shared(freq=300, gate=1):
    # an Env made once by the user (module level) and used - also through
    # range() - by every build of this function
    u = _u()
    import sc3.synth.envelope as evp
    if not _ENV:
        _ENV.append(evp.Env.perc(0.01, 0.5))
    base = _ENV[0]
    a = u.EnvGen.kr(base.range(0, 0.5), gate)
    b = u.EnvGen.kr(base, gate, done_action=2)
    u.Out.ar(0, u.SinOsc.ar(freq) * a * b)


def g_env_pairs(freq=300, gate=1):
    # break points kept by the user and handed to Env.pairs by every build
    u = _u()
    import sc3.synth.envelope as evp
    e = u.EnvGen.kr(evp.Env.pairs(POINTS, 'lin'), gate, done_action=2)
    u.Out.ar(0, u.SinOsc.ar(freq) * e)


SHARED_RATES = [None, None, 0.2]


def g_rates_a(a: 'ir' = 1, b: 'tr' = 0, c=0.5):
    # annotated rates, and a rates list that the user also gives to the
    # build of another function (g_rates_b)
    u = _u()
    u.Out.ar(0, u.SinOsc.ar(200 * a) * u.Decay.kr(b) * c)


def g_rates_b(x=1, y=0, z=0.5):
    u = _u()
    u.Out.ar(0, u.SinOsc.ar(200 * x) * y * z)


def g_shared(freq=200):
    u = _u()
    osc = u.SinOsc.ar(freq)
    sq = osc * osc
    u.Out.ar(0, [sq + osc, sq - osc])


def g_feedback(fb=0.3):
    u = _u()
    loc = u.LocalIn.ar(2)
    sig = u.SinOsc.ar([220, 221]) + loc * fb
    u.LocalOut.ar(u.DelayN.ar(sig, 0.2, 0.1))
    u.Out.ar(0, sig)


def g_demand(rate=4):
    u = _u()
    trig = u.Impulse.kr(rate)
    seq = u.Dseq([60, 62, 64, 67], float('inf'))
    note = u.Demand.kr(trig, 0, seq)
    u.Out.ar(0, u.SinOsc.ar(note.midicps()) * 0.1)


def g_fft(thresh=0.5):
    u = _u()
    buf = u.LocalBuf(1024)
    chain = u.FFT(buf, u.WhiteNoise.ar() * 0.1)
    chain = u.PV_MagAbove(chain, thresh)
    u.Out.ar(0, u.IFFT(chain))


def g_noise_random(seed=1):
    u = _u()
    u.RandSeed.ir(1, seed)
    sig = u.WhiteNoise.ar() * u.Rand(0.1, 0.2) + u.Dust.ar(10)
    u.Out.ar(0, sig)


def g_many(freq=100):
    u = _u()
    sig = 0
    for i in range(1, 25):
        sig = sig + u.SinOsc.ar(freq * i, 0) * (1 / i)
    u.Out.ar(0, sig * 0.1)


def g_controls(out=0, freq=440, amp=0.1, trig=0, lagged=1.0):
    u = _u()
    u.Out.ar(out, u.SinOsc.ar(freq + lagged) * amp * u.Decay.kr(trig, 0.2))


def _inner(freq=300, amp=0.2):
    u = _u()
    return u.SinOsc.ar(freq) * amp


def g_wrap(out=0):
    u = _u()
    import sc3.synth.synthdef as sdf
    sig = sdf.SynthDef.wrap(_inner)
    u.Out.ar(out, sig)


def g_dead_code(freq=440):
    u = _u()
    unused = u.SinOsc.ar(freq * 2) * 0.5      # pure, unreferenced: dropped
    u.Out.ar(0, u.LFPar.ar(freq) * 0.1)



def g_dead_related(freq=300):
    u = _u()
    x = u.SinOsc.ar(freq)
    y = u.SinOsc.ar(freq * 2)
    z = u.SinOsc.ar(freq * 3)
    p = x * y
    q = p + z
    dead = q * p        # unreferenced; its two inputs feed one another:
    u.Out.ar(0, q)      # what is left depends on the order they are revisited


def g_dead_web(freq=100):
    u = _u()
    a = u.Saw.ar(freq)
    b = u.LFTri.ar(freq * 2)
    c = u.Pulse.ar(freq * 3)
    m = a * b
    n = m + c
    o = n * a + b
    d1 = o * m          # three unreferenced pure ugens over shared inputs
    d2 = n - o
    d3 = d1 + d2 * m
    u.Out.ar(0, [o, n])


def g_dead_multi(freq=50):
    u = _u()
    src = u.SinOsc.ar([freq, freq * 2, freq * 3])
    prod = src[0] * src[1]
    acc = prod + src[2]
    again = acc * prod + src[0]
    unused = [again * acc, acc * prod, again + prod]
    u.Out.ar(0, acc)




def g_pairsum(freq=100):
    u = _u()
    a = u.SinOsc.ar(freq)
    b = u.SinOsc.ar(freq * 2)
    c = u.SinOsc.ar(freq * 3)
    d = u.SinOsc.ar(freq * 4)
    e = u.SinOsc.ar(freq * 5)
    f = u.SinOsc.ar(freq * 6)
    # additions whose two operands are single-use additions themselves, and
    # the same with products feeding sums and differences
    u.Out.ar(0, [(a + b) + (c + d), (a * b + c) + (d * e + f),
                 (c - d) + (e - f), ((a + c) + (b + d)) + (e + f)])


def make_factory(default, rate, chans):
    """Graph functions made by one `def` statement: they share a code object
    and differ in defaults, annotations and multichannel size."""
    def g_made(freq: rate = default, amp=0.1, spread=chans):
        u = _u()
        u.Out.ar(0, u.SinOsc.ar(freq) * amp * u.Mix(spread))
    return g_made


g_factory_a = make_factory(220, 'kr', [1, 2])
g_factory_b = make_factory(55, 'ar', [1, 2, 3])
g_factory_c = make_factory(880.5, 'ir', 0.5)


# build arguments kept in module-level objects and shared by every build of
# these definitions (a table of build arguments, as user code has them)
PREPEND = [0.25]
WRAP_PREPEND = [0.5]
RATES = [0.1, None, 'tr']
VARIANTS = {'low': {'freq': 110}, 'loud': {'amp': 0.5}}


def g_prepend(scale, freq=440, amp=0.1, trig=0):
    u = _u()
    u.Out.ar(0, u.SinOsc.ar(freq) * amp * scale * u.Decay.kr(trig, 0.1))


def _inner_scaled(mul, freq=300, amp=0.2):
    u = _u()
    return u.SinOsc.ar(freq) * amp * mul


def g_wrap_prepend(out=0):
    u = _u()
    import sc3.synth.synthdef as sdf
    a = sdf.SynthDef.wrap(_inner_scaled, prepend=WRAP_PREPEND)
    u.Out.ar(out, a)


CORPUS = {
    'sine': (g_sine, {}),
    'sum': (g_sum, {}),
    'muladd': (g_muladd, {}),
    'multichannel': (g_multichannel, {}),
    'pan_env': (g_pan_env, {}),
    'shared': (g_shared, {}),
    'feedback': (g_feedback, {}),
    'demand': (g_demand, {}),
    'fft': (g_fft, {}),
    'noise_random': (g_noise_random, {}),
    'many': (g_many, {}),
    'controls': (g_controls, {'rates': [None, None, 0.1, 'tr', 'ar']}),
    'wrap': (g_wrap, {}),
    'dead_code': (g_dead_code, {}),
    'dead_related': (g_dead_related, {}),
    'dead_web': (g_dead_web, {}),
    'dead_multi': (g_dead_multi, {}),
    'prepend': (g_prepend, {'prepend': PREPEND, 'rates': RATES,
                            'variants': VARIANTS}),
    'wrap_prepend': (g_wrap_prepend, {}),
    'pairsum': (g_pairsum, {}),
    'factory_a': (g_factory_a, {}),
    'factory_b': (g_factory_b, {}),
    'factory_c': (g_factory_c, {}),
    'rates_a': (g_rates_a, {'rates': SHARED_RATES}),
    'rates_b': (g_rates_b, {'rates': SHARED_RATES}),
    'env_shared': (g_env_shared, {}),
    'env_pairs': (g_env_pairs, {}),
}


class Fail(Exception):
    pass


def build(name, fail=None, fail_after=0):
    """Build one corpus definition; `fail` injects a failure (F8)."""
    import sc3.synth.synthdef as sdf
    import sc3.synth.ugens as u
    func, kw = CORPUS[name]
    if fail is None:
        return sdf.SynthDef(name, func, **kw)
    if fail in ('func', 'kbd'):
        exc = Fail if fail == 'func' else KeyboardInterrupt
        return sdf.SynthDef(name, _sig_wrap(func, exc, fail_after), **kw)
    if fail == 'rate':
        def bad(freq=440):
            u.Out.ar(0, u.LPF.ar(u.SinOsc.kr(freq), 100))   # kr into ar filter
        return sdf.SynthDef(name, bad)
    if fail == 'name':
        d = sdf.SynthDef('x' * 300, func, **kw)
        d.as_bytes()       # the writer refuses names longer than 255 bytes
        return d
    raise ValueError(fail)


def _sig_wrap(func, exc, fail_after):
    """A graph function with func's parameters that fails at its end."""
    import inspect
    import sc3.synth.ugens as u
    params = list(inspect.signature(func).parameters.values())
    names = [p.name for p in params]
    src = 'def failing(' + ', '.join(
        f'{p.name}={p.default!r}' if p.default is not p.empty else p.name
        for p in params) + '):\n'
    src += '    for _ in range(fail_after):\n        u.SinOsc.ar(100)\n'
    src += '    func(' + ', '.join(names) + ')\n'
    src += '    u.SinOsc.ar(1)\n    raise exc("injected")\n'
    ns = {'func': func, 'exc': exc, 'u': u, 'fail_after': fail_after}
    exec(src, ns)
    return ns['failing']


def build_hex(name):
    """Bytes of one build as hex, or 'ERR:<type>' if the build raises (a
    build that always raises the same way is still a function of its
    input)."""
    try:
        return bytes(build(name).as_bytes()).hex()
    except Exception as e:
        return 'ERR:' + type(e).__name__


def pristine_all():
    return {name: build_hex(name) for name in CORPUS}
