"""C12 - TempoClock time arithmetic and quantisation are consistent.
Programs of routines that read and change tempo, beats and meter of 1-3
TempoClocks, query the grid functions and play children with quants, run by
real sc3 in RT (fault-free and under faults: changes land while the clock
thread sleeps) and in NRT; the laws are checked at every query and change, and
the whole trace against an independent affine-map model where the program has
a single answer."""

import math

from sim import subrun as S
from . import common as C
from . import rprog
from . import rworlds as W

ID = 'C12'
QUICK_RUNS = 600
THOROUGH_SECONDS = 480
REL = 1e-9

COMPONENTS = {
    'real': 'sc3 TempoClock (maps, setters, grid, meter), builtins '
            'roundup/mod/round/ceil/floor, routines, RtMain/NrtMain',
    'stub': 'threading primitives, time, socket (RT); nothing in NRT'}


def gen_case(tp, tier):
    feat = {'tempo_clocks': True, 'init_beats': tp.draw(2) == 0,
            'tempo_change': True, 'grid': True, 'etempo': True}
    prog = rprog.gen(tp, feat, tier)
    while not prog['clocks']:
        prog = rprog.gen(tp, feat, tier)
    ff = C.gen_knobs(tp, fault_free_pm=1000)
    k1 = C.gen_knobs(tp, fault_free_pm=0)
    return {'prog': prog, 'knobs': [ff, k1]}


def shrink_candidates(case):
    import copy
    for p in rprog.shrink_candidates(case['prog']):
        c = copy.deepcopy(case)
        c['prog'] = p
        yield c
    if len(case['knobs']) > 1:
        c = copy.deepcopy(case)
        c['knobs'] = c['knobs'][:1]
        yield c


def close(a, b, rel=REL):
    return abs(a - b) <= rel * max(1.0, abs(a), abs(b))


def on_grid(x, q):
    """distance of x to the nearest multiple of q"""
    r = math.fmod(x, q)
    return min(abs(r), abs(abs(r) - q))


def check_laws(name, res, viol, stats):
    for e in res['trace']:
        ev = e['ev']
        if ev == 'grid':
            ci, q, p, g = e['vals']
            stats['grid-queries'] = stats.get('grid-queries', 0) + 1
            b = g['beats']
            # affine map there and back
            if not close(g['rt_secs'], b):
                viol.add('C12-1', f'{name}-secs-beats-roundtrip',
                         f'{name}: secs2beats(beats2secs({b})) = '
                         f'{g["rt_secs"]}')
            if not close(g['rt_bars'], b):
                viol.add('C12-6', f'{name}-bars-beats-roundtrip',
                         f'{name}: bars2beats(beats2bars({b})) = '
                         f'{g["rt_bars"]}')
            if not close(g['b2s'], g['secs']):
                viol.add('C12-1', f'{name}-beats2secs-now',
                         f'{name}: beats2secs(beats) = {g["b2s"]} at '
                         f'logical second {g["secs"]}')
            if not close(g['beat_dur'] * g['tempo'], 1.0):
                viol.add('C12-1', f'{name}-beat-dur',
                         f'{name}: tempo {g["tempo"]} * beat_dur '
                         f'{g["beat_dur"]} != 1')
            bbb, bpb = g['bbb'], g['bpb']
            tol = REL * max(1.0, abs(b))
            # quantisation
            if q < 0:
                if g.get('g_err') != 'ValueError':
                    viol.add('C12-3', f'{name}-negative-quant',
                             f'{name}: next_time_on_grid({q}, {p}) did not '
                             f'raise ValueError')
            elif 'g' not in g:
                viol.add('C12-3', f'{name}-grid-raised',
                         f'{name}: next_time_on_grid({q}, {p}) raised')
            elif q == 0:
                rb = b if g.get('ref') is None else g['ref']
                if not close(g['g'], rb + p):
                    viol.add('C12-3', f'{name}-quant-zero',
                             f'{name}: next_time_on_grid(0, {p}, '
                             f'{g.get("ref")}) = {g["g"]} at beat {b}')
            else:
                gg = g['g']
                pm = p % q
                if g.get('ref') is not None:
                    b = g['ref']          # explicit reference beat
                    tol = REL * max(1.0, abs(b))
                    stats['grid-explicit-ref'] = stats.get(
                        'grid-explicit-ref', 0) + 1
                x = (b - bbb - pm) / q
                amb = x != round(x) and abs(x - round(x)) < 1e-7
                if gg < b - tol:
                    viol.add('C12-3', f'{name}-grid-before-ref',
                             f'{name}: next_time_on_grid({q}, {p}) = {gg} '
                             f'is before the reference beat {b}')
                if on_grid(gg - bbb - p, q) > 1e-7 * max(1.0, abs(gg)):
                    viol.add('C12-3', f'{name}-grid-not-congruent',
                             f'{name}: next_time_on_grid({q}, {p}) = {gg} '
                             f'is not congruent to {p} mod {q} counted from '
                             f'{bbb}')
                import math
                if x == round(x):
                    late = gg - b > 2 * tol       # on the grid: stay there
                elif amb:
                    late = gg - b > q + tol       # a hair off the grid
                else:
                    # the grid point right above the reference beat (which
                    # may be a hair less than a whole quant away)
                    late = gg > bbb + pm + math.ceil(x) * q + tol
                if late:
                    viol.add('C12-3', f'{name}-grid-not-earliest',
                             f'{name}: next_time_on_grid({q}, {p}) = {gg} at '
                             f'beat {b}: {gg - q} would do (base {bbb})')
                if amb:
                    stats['grid-ambiguous'] = stats.get(
                        'grid-ambiguous', 0) + 1
            # bars
            b = g['beats']
            tol = REL * max(1.0, abs(b))
            nb = g['next_bar']
            if nb < b - tol:
                viol.add('C12-6', f'{name}-next-bar-before',
                         f'{name}: next_bar() = {nb} before beat {b}')
            if on_grid(nb - bbb, bpb) > 1e-7 * max(1.0, abs(nb)):
                viol.add('C12-6', f'{name}-next-bar-not-barline',
                         f'{name}: next_bar() = {nb} is not a bar line '
                         f'(meter {bpb} from beat {bbb})')
            xb = (b - bbb) / bpb
            ambb = xb != round(xb) and abs(xb - round(xb)) < 1e-7
            if nb - b > bpb + (tol if ambb else -tol) and xb != round(xb):
                viol.add('C12-6', f'{name}-next-bar-late',
                         f'{name}: next_bar() = {nb} at beat {b}, meter '
                         f'{bpb}')
            if xb == round(xb) and abs(nb - b) > tol:
                viol.add('C12-6', f'{name}-next-bar-on-barline',
                         f'{name}: on a bar line ({b}) next_bar() = {nb}')
            bib = g['beat_in_bar']
            if not (-tol <= bib < bpb + tol):
                viol.add('C12-6', f'{name}-beat-in-bar-range',
                         f'{name}: beat_in_bar() = {bib}, meter {bpb}')
            if g['ttnb'] < -tol:
                viol.add('C12-3', f'{name}-time-to-next-beat-negative',
                         f'{name}: time_to_next_beat = {g["ttnb"]}')
            # ... and it is the distance from this clock's current beat to
            # its next grid point, whichever clock the caller plays on
            if 'g0' in g and abs(g['ttnb'] - (g['g0'] - b)) > 1e-7 * max(
                    1.0, abs(b)):
                viol.add('C12-3', f'{name}-time-to-next-beat',
                         f'{name}: time_to_next_beat({q if q > 0 else 1}) = '
                         f'{g["ttnb"]} at beat {b}, next_time_on_grid gives '
                         f'{g["g0"]}')
        elif ev in ('tempo', 'beats'):
            ci, v, d = e['vals']
            stats['map-changes'] = stats.get('map-changes', 0) + 1
            want_b = d['b0'] if ev == 'tempo' else d['b0'] + v
            if not close(d['b1'], want_b):
                viol.add('C12-2', f'{name}-{ev}-beat-discontinuous',
                         f'{name}: {ev} change at beat {d["b0"]}: beats '
                         f'read {d["b1"]} afterwards, expected {want_b}')
            if not close(d['s1'], d['s0']):
                viol.add('C12-2', f'{name}-{ev}-second-discontinuous',
                         f'{name}: {ev} change at second {d["s0"]}: the '
                         f'current beat maps to second {d["s1"]} afterwards')
            if ev == 'tempo' and (not close(d['tempo'], v) or not close(
                    d['beat_dur'] * v, 1.0)):
                viol.add('C12-2', f'{name}-tempo-not-set',
                         f'{name}: tempo set to {v}: tempo {d["tempo"]}, '
                         f'beat_dur {d["beat_dur"]}')
        elif ev == 'etempo':
            ci, v, d = e['vals']
            stats['etempo-changes'] = stats.get('etempo-changes', 0) + 1
            # the change pivots on the physical present: the clock's beat at
            # the elapsed time neither jumps nor runs backwards across it
            tol = REL * max(1.0, abs(d['eb0']), abs(d['eb1']))
            most = (d['t1'] - d['t0']) * max(abs(d['tempo0']), abs(v))
            jump = d['eb1'] - d['eb0']
            if not (-tol <= jump <= most + tol):
                viol.add('C12-2', f'{name}-etempo-beat-discontinuous',
                         f'{name}: etempo({v}) (tempo was {d["tempo0"]}): '
                         f'elapsed_beats {d["eb0"]} -> {d["eb1"]} while '
                         f'{d["t1"] - d["t0"]} s went by (at most {most} '
                         f'beats)')
            if not close(d['tempo'], v) or not close(d['beat_dur'] * v, 1.0):
                viol.add('C12-2', f'{name}-etempo-not-set',
                         f'{name}: etempo({v}): tempo {d["tempo"]}, '
                         f'beat_dur {d["beat_dur"]}')
        elif ev == 'bpb':
            ci, v, d = e['vals']
            if d['own']:
                if d['err']:
                    viol.add('C12-6', f'{name}-meter-refused',
                             f'{name}: beats_per_bar from the clock\'s own '
                             f'routine raised {d["err"]}')
                elif d['bpb'] != v or not close(d['bbb'], d['beats']):
                    viol.add('C12-6', f'{name}-meter-change',
                             f'{name}: after beats_per_bar = {v} at beat '
                             f'{d["beats"]}: meter {d["bpb"]}, base bar '
                             f'beat {d["bbb"]}')
                elif 'bar0' in d:
                    # the bar count goes on from the old grid: the bar the
                    # change happens in, rounded to a whole bar, is where the
                    # new grid starts counting
                    import math
                    b0 = d['bar0']
                    if abs(b0 - math.floor(b0) - 0.5) > 1e-6 and (
                            not close(d['base_bar'], math.floor(b0 + 0.5))
                            or not close(d['bar1'], d['base_bar'])):
                        viol.add('C12-6', f'{name}-bar-count-discontinuous',
                                 f'{name}: beats_per_bar = {v} at beat '
                                 f'{d["beats"]}, bar {b0} of the old grid: '
                                 f'the new grid counts from bar '
                                 f'{d["base_bar"]} (beats2bars now '
                                 f'{d["bar1"]})')
                    if b0 > 1.25:
                        stats['meter-change-after-bar-1'] = stats.get(
                            'meter-change-after-bar-1', 0) + 1
                stats['meter-changes'] = stats.get('meter-changes', 0) + 1
            else:
                stats['foreign-meter-change'] = stats.get(
                    'foreign-meter-change', 0) + 1
                if d['err'] != 'ClockError':
                    viol.add('C12-6', f'{name}-foreign-meter-accepted',
                             f'{name}: beats_per_bar set from outside the '
                             f'clock\'s thread: {d["err"]}')


def check_model(name, res, model, viol, prog, stats):
    got = {}
    for e in res['trace']:
        if e['ev'] == 'rec':
            got.setdefault(e['r'], []).append(e)
    for rid, mrecs in model.recs.items():
        g = got.get(rid, [])
        cname = prog['routines'][rid]['clock']
        if len(g) != len(mrecs):
            viol.add('C12-4', f'{name}-{cname[0]}-resumption-count',
                     f'{name}: routine {rid} on {cname} recorded {len(g)} '
                     f'times, model expects {len(mrecs)}')
        for a, m in zip(g, mrecs):
            stats['recs-compared'] = stats.get('recs-compared', 0) + 1
            ok = close(a['secs'], m['secs']) and close(a['beats'], m['beats'])
            if not ok and 'alt_secs' in m:
                ok = close(a['secs'], m['alt_secs']) and close(
                    a['beats'], m['alt_beats'])
            if not ok:
                viol.add(
                    'C12-4', f'{name}-{cname[0]}-beats-advance',
                    f'{name}: routine {rid} on {cname}, resumption '
                    f'{a["k"]}: {a["secs"]} s / {a["beats"]} beats, model '
                    f'{m["secs"]} s / {m["beats"]} beats')
                break


def check_local(name, res, viol, prog, stats):
    """(a) beats advance at the current tempo between two resumptions of a
    routine when nobody changed its clock's map in between; (b) play(quant)
    starts the child exactly on the grid point computed at the spawn."""
    tr = res['trace']
    last = {}           # rid -> (index, rec)
    change_idx = {}     # clock index -> list of trace indices of map changes
    for i, e in enumerate(tr):
        if e['ev'] in ('tempo', 'beats', 'etempo'):
            change_idx.setdefault(f't{e["vals"][0]}', []).append(i)

    def changed(cname, i, j):
        return any(i < x < j for x in change_idx.get(cname, ()))

    spawn_at = {}
    for i, e in enumerate(tr):
        if e['ev'] == 'spawn':
            spawn_at[e['child']] = (i, e)
        if e['ev'] != 'rec':
            continue
        rid = e['r']
        cname = prog['routines'][rid]['clock']
        if not cname.startswith('t'):
            continue
        if rid in last:
            i0, e0 = last[rid]
            if not changed(cname, i0, i) and e0['tempo'] == e['tempo']:
                db = e['beats'] - e0['beats']
                ds = e['secs'] - e0['secs']
                stats['advance-checked'] = stats.get('advance-checked', 0) + 1
                if abs(db - ds * e['tempo']) > REL * max(
                        1.0, abs(e['beats']), abs(ds * e['tempo'])):
                    viol.add(
                        'C12-4', f'{name}-beats-advance',
                        f'{name}: routine {rid} on {cname}: {db} beats in '
                        f'{ds} s at tempo {e["tempo"]}')
        elif rid in spawn_at:
            i0, sp = spawn_at[rid]
            q = prog['routines'][rid]['quant']
            body = prog['routines'][rid]['body']
            if body and body[0][0] == 'rec' and not changed(cname, i0, i) \
                    and sp['ref'] is not None:
                qq, pp = (1, 0) if q is None else ((0, 0) if q == 0 else q)
                mc = rprog.MClock(1, 0, 0)
                mc.bbb = sp['bbb'] or 0.0
                g, alt = mc.grid(sp['ref'], qq, pp)
                stats['quant-start-checked'] = stats.get(
                    'quant-start-checked', 0) + 1
                if not close(e['beats'], g) and (
                        alt is None or not close(e['beats'], alt)):
                    viol.add(
                        'C12-5', f'{name}-play-quant-start',
                        f'{name}: routine {rid} played on {cname} with '
                        f'quant {q} at beat {sp["ref"]} (bar base '
                        f'{sp["bbb"]}) started at beat {e["beats"]}, grid '
                        f'point is {g}')
        last[rid] = (i, e)


def changes_map(prog):
    return any(st[0] in ('tempo', 'beats', 'etempo')
               for r in prog['routines'] for st in r['body'])


def run_case(case, tape, ctx):
    prog = case['prog']
    viol = C.Violations()
    stats = {}
    model = rprog.Model(prog).run()
    subs, names = [], []
    for i, kn in enumerate(case['knobs']):
        kn = dict(kn)
        res = S.subrun(tape, lambda st, emit, kn=kn: W.run_rt(
            prog, kn, st, emit))
        subs.append(res)
        names.append('rt-ff' if kn.get('fault_free') else f'rt-f{i}')
    nrt = S.subrun(tape, lambda st, emit: W.run_nrt(prog, st, emit))
    agg = W.combine(subs)
    bad = [s for s in subs if s['outcome'] != 'ok']
    if bad:
        return W.result(viol, agg, outcome=bad[0]['outcome'])
    if W.process_raised(viol, 'C12-4', nrt):
        return W.result(viol, agg)
    pure = not changes_map(prog) and not model.cross_tie
    if model.cross_tie:
        stats['cross-clock-tie'] = 1
    for name, res in zip(names + ['nrt'], subs + [nrt]):
        if res['errors']:
            viol.add('C12-4', f'{name}-error-logged', str(res['errors'][0]))
        check_laws(name, res, viol, stats)
        check_local(name, res, viol, prog, stats)
        # the whole trace against the model where the program never changes
        # a map (what a change does to *pending* wake-ups is C10's subject)
        if pure:
            check_model(name, res, model, viol, prog, stats)
    sample = {'clocks': prog['clocks'], 'routines': [
        {'clock': r['clock'], 'quant': r['quant'], 'body': r['body'][:10]}
        for r in prog['routines'][:3]]}
    return W.result(viol, agg, nontrivial=agg['contended'] > 0
                    and stats.get('grid-queries', 0)
                    + stats.get('map-changes', 0) > 0,
                    sample=sample, extra_probes=stats)
