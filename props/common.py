"""Shared helpers for property modules: knob generation, queue monitors,
result assembly."""

from sim import kernel as K

POLICIES = ['random', 'random', 'sticky50', 'sticky90', 'pct1', 'pct2',
            'pct3', 'rr']

GRID = [k / 64.0 for k in (1, 2, 4, 8, 16, 32, 48, 64, 96, 128)]


def gen_knobs(tp, fault_free_pm=250, max_steps=20000, allow_big_lat=True):
    """Swarm-style per-run knobs.  A share of runs is fault-free (strict
    two-sided oracles); the rest draws a random subset of fault kinds."""
    if tp.chance(fault_free_pm):
        return {'policy': tp.choice(POLICIES), 'lat': 0, 'cost': 0.0,
                'stall_pm': 0, 'epoch': 'exact', 'time_yield': False,
                'fault_free': True, 'max_steps': max_steps}
    lat = tp.choice([0, 1, 2, 3, 3, 5] if allow_big_lat else [0, 1, 2, 4])
    # a share of the faulty runs also pre-empts at LINE level inside
    # base/main.py, clock.py, stream.py, _oscinterface.py, responders.py
    line_mean = tp.choice([0] * 7 + [8, 30, 120])
    return {
        'line_mean': line_mean,
        'policy': tp.choice(POLICIES),
        'lat': lat,
        'cost': tp.choice([0.0, 5e-6, 50e-6]),
        'stall_pm': tp.choice([0, 0, 5, 20, 60]),
        'stall_max': tp.choice([0.01, 0.5]),
        'epoch': tp.choice(['real', 'real', 'exact']),
        'time_yield': bool(tp.draw(2)),
        'fault_free': False,
        'max_steps': max_steps,
    }


class Violations:
    def __init__(self):
        self.items = []
        self._seen = set()

    def add(self, oracle, key, detail):
        k = (oracle, key)
        if k in self._seen:
            return
        self._seen.add(k)
        if len(self.items) < 12:
            self.items.append(
                {'oracle': oracle, 'key': key, 'detail': str(detail)[:600]})

    def __bool__(self):
        return bool(self.items)


def same(a, b):
    """Key equality the way a dict decides it: identity, else equal hashes
    and ==.  (sc3's AbstractObject.__eq__ builds a composed object, so a bare
    == between two routines is always truthy.)"""
    if a is b:
        return True
    try:
        return hash(a) == hash(b) and bool(a == b)
    except Exception:
        return False


class RefQueue:
    """Sorted-list reference model of TaskQueue (C09): entries (prio, seq,
    task) with a global insertion counter."""

    def __init__(self):
        self.items = []    # list of [prio, seq, task]
        self.seq = 0

    def _find(self, task):
        for i, e in enumerate(self.items):
            if same(e[2], task):
                return i
        return -1

    def add(self, prio, task):
        i = self._find(task)
        if i >= 0:
            del self.items[i]
        self.seq += 1
        self.items.append([prio, self.seq, task])

    def remove(self, task):
        i = self._find(task)
        if i >= 0:
            del self.items[i]

    def _min(self):
        return min(self.items, key=lambda e: (e[0], e[1]))

    def _max(self):
        return max(self.items, key=lambda e: (e[0], e[1]))

    def pop(self):
        if not self.items:
            raise KeyError
        e = self._min()
        self.items.remove(e)
        return (e[0], e[2])

    def peek(self, smallest=True):
        if not self.items:
            raise KeyError
        e = self._min() if smallest else self._max()
        return (e[0], e[2])

    def empty(self):
        return not self.items

    def clear(self):
        self.items = []

    def sorted(self):
        return [(e[0], e[2]) for e in
                sorted(self.items, key=lambda e: (e[0], e[1]))]


class QueueMonitor:
    """Wraps one live TaskQueue instance (instance-level attributes, no
    change to the class): mirrors every call into RefQueue, compares every
    result (C09 shadow) and reports add/pop/clear events to a listener (C08
    model).  Never yields, never draws."""

    def __init__(self, q, name, viol, listener=None, stats=None):
        self.q = q
        self.name = name
        self.ref = RefQueue()
        self.viol = viol
        self.listener = listener
        self.stats = stats if stats is not None else {}
        # seed the model with what is already in the queue
        for prio, task in list(q):
            self.ref.add(prio, task)
        self._orig = {n: getattr(q, n) for n in
                      ('add', 'remove', 'pop', 'peek', 'empty', 'clear')}
        q.add = self.add
        q.remove = self.remove
        q.pop = self.pop
        q.peek = self.peek
        q.empty = self.empty
        q.clear = self.clear

    def _bump(self, k):
        self.stats[k] = self.stats.get(k, 0) + 1

    def add(self, prio, task):
        self._bump('q-add')
        if self.ref._find(task) >= 0:
            self._bump('q-readd')
        if any(e[0] == prio for e in self.ref.items):
            self._bump('q-tie')
        self._orig['add'](prio, task)
        self.ref.add(prio, task)
        if self.listener:
            self.listener.on_add(self.name, prio, task)

    def remove(self, task):
        # TaskQueue.add calls self.remove internally; mirror only direct calls
        self._orig['remove'](task)
        self.ref.remove(task)
        self._bump('q-remove')
        if self.listener:
            self.listener.on_remove(self.name, task)

    def pop(self):
        self._bump('q-pop')
        try:
            got = self._orig['pop']()
        except KeyError:
            if not self.ref.empty():
                self.viol.add('C09-shadow', f'{self.name}:pop-keyerror',
                              'pop raised KeyError on a non-empty queue')
            raise
        try:
            exp = self.ref.pop()
        except KeyError:
            self.viol.add('C09-shadow', f'{self.name}:pop-ghost',
                          f'pop returned {got!r} but the model is empty')
            exp = None
        if exp is not None and (exp[0] != got[0]
                                or not same(exp[1], got[1])):
            self.viol.add('C09-shadow', f'{self.name}:pop-order',
                          f'pop returned {got!r}, model minimum is {exp!r}')
        if self.listener:
            self.listener.on_pop(self.name, got[0], got[1])
        return got

    def peek(self, smallest=True):
        try:
            got = self._orig['peek'](smallest)
        except KeyError:
            if not self.ref.empty():
                self.viol.add('C09-shadow', f'{self.name}:peek-keyerror',
                              'peek raised KeyError on a non-empty queue')
            raise
        try:
            exp = self.ref.peek(smallest)
        except KeyError:
            self.viol.add('C09-shadow', f'{self.name}:peek-ghost',
                          f'peek returned {got!r} but the model is empty')
            return got
        if exp[0] != got[0] or not same(exp[1], got[1]):
            self.viol.add('C09-shadow', f'{self.name}:peek',
                          f'peek({smallest}) returned {got!r}, model {exp!r}')
        return got

    def empty(self):
        got = self._orig['empty']()
        if got != self.ref.empty():
            self.viol.add('C09-shadow', f'{self.name}:empty',
                          f'empty() returned {got}, model {self.ref.empty()}')
        return got

    def clear(self):
        self._bump('q-clear')
        self._orig['clear']()
        self.ref.clear()
        if self.listener:
            self.listener.on_qclear(self.name)


def result(kernel, viol, outcome='ok', nontrivial=None, sample=None,
           extra_probes=None, features=None):
    probes = dict(kernel.probes) if kernel is not None else {}
    if extra_probes:
        for k, v in extra_probes.items():
            probes[k] = probes.get(k, 0) + v
    if kernel is None:
        return {'violations': viol.items, 'probes': probes, 'faults': {},
                'outcome': outcome, 'steps': 0, 'vtime': 0.0,
                'nontrivial': bool(nontrivial), 'sample': sample,
                'features': features or []}
    return {
        'violations': viol.items,
        'probes': probes,
        'faults': dict(kernel.faults),
        'outcome': outcome,
        'steps': kernel.steps,
        'vtime': kernel.now,
        'sig': kernel.schedule_signature(),
        'digest': kernel.digest(),
        'nontrivial': (kernel.contended > 0) if nontrivial is None
        else bool(nontrivial),
        'sample': sample,
        'features': features or [],
    }
