"""C20 - definition builds are deterministic, isolated and leave no residue.

One case = a set of builder threads, each with a list of builds from a corpus
of graph functions (some failing: error raised by the graph function, by an
input check, by the writer, KeyboardInterrupt), SynthDesc reads that share the
build lock and global context, and heap perturbations, executed by real sc3
under the kernel with LINE-level pre-emption inside sc3/synth/* and
sc3/base/main.py; compared with pristine bytes from a separate fresh process.
Plus (once per check run) the whole corpus built in fresh interpreters under
different PYTHONHASHSEED values with ASLR on."""

import hashlib
import json
import os
import subprocess
import sys

from sim import kernel as K
from sim import subrun as S
from sim import tape as T
from . import common as C
from . import c20_corpus as CC
from . import rworlds as W

ID = 'C20'
QUICK_RUNS = 500
THOROUGH_SECONDS = 480
# a violation caused by address-dependent iteration order need not replay
# bit-identically: confirm by repetition instead of by digest
REPLAY_RETRIES = 6
DIGEST_STABLE = False

NAMES = list(CC.CORPUS)
COMPONENTS = {
    'real': 'sc3 SynthDef build (graph building, optimiser, topological sort, '
            'binary writer), UGen construction, SynthDesc reader, build lock '
            'and global build context, RtMain/NrtMain',
    'stub': 'threading primitives (incl. the build lock), time, socket; '
            'LINE-event pre-emption via sys.monitoring'}
ASSUMPTIONS = [
    'pre-emption at LINE events of sc3/synth/* and sc3/base/main.py (a switch '
    'inside a source line cannot be placed)',
    'unit generators created outside any build while another thread builds '
    'attach to that build (documented single global context): not generated']


def gen_case(tp, tier):
    big = tier == 'thorough'
    mode = tp.choice(['rt', 'rt', 'nrt'])
    nthreads = tp.choice([1, 2, 2, 3, 4])
    threads = []
    for _ in range(nthreads):
        ops = []
        for _ in range(1 + tp.draw(4 if big else 3)):
            r = tp.draw(12)
            name = tp.choice(NAMES)
            if r < 6:
                ops.append(['build', name, None, 0])
            elif r < 9:
                ops.append(['build', name,
                            tp.choice(['func', 'func', 'rate', 'name', 'kbd']),
                            tp.draw(4)])
            elif r < 10:
                ops.append(['desc', name])
            elif r < 11:
                ops.append(['twice', name])
            else:
                ops.append(['garbage', 1 + tp.draw(400), tp.draw(1000)])
        threads.append(ops)
    knobs = {'policy': tp.choice(C.POLICIES), 'lat': 0, 'cost': 0.0,
             'stall_pm': 0, 'epoch': 'exact', 'time_yield': False,
             'max_steps': 400000, 'line_manual': True,
             'line_mean': tp.choice([5, 20, 50, 200, 1000])}
    return {'mode': mode, 'threads': threads, 'knobs': knobs,
            'post': [tp.choice(NAMES) for _ in range(2)],
            'warm': tp.draw(3) == 0}


def shrink_candidates(case):
    import copy
    for i in range(len(case['threads']) - 1, -1, -1):
        if len(case['threads']) > 1:
            c = copy.deepcopy(case)
            del c['threads'][i]
            yield c
    for i, ops in enumerate(case['threads']):
        for j in range(len(ops) - 1, -1, -1):
            c = copy.deepcopy(case)
            del c['threads'][i][j]
            yield c
    if case['post']:
        c = copy.deepcopy(case)
        c['post'] = c['post'][:-1]
        yield c
    if case['knobs']['line_mean'] != 1000:
        c = copy.deepcopy(case)
        c['knobs']['line_mean'] = 1000
        yield c
    if case['mode'] != 'nrt':
        c = copy.deepcopy(case)
        c['mode'] = 'nrt'
        yield c


def run_pristine(tape, emit):
    from sim import world
    w = world.NrtWorld(seed=1).boot()
    return {'bytes': CC.pristine_all()}


def run_builders(case, tape, emit):
    from sim import world
    from sim import shims
    import sc3
    import sc3.base.main as sm
    knobs = dict(case['knobs'])
    if case['mode'] == 'rt':
        w = world.RtWorld(tape, knobs, seed=1)
        k = w.kernel
        w.boot()
        main = w.main
        spawn_thread = lambda name, fn: _sim_thread(w, name, fn)
    else:
        k = K.Kernel(tape, knobs)
        shims.install_nrt(1)
        for cls in (sm.RtMain, sm.NrtMain):
            cls._def_build_lock = K.SimLock(k, False, 'defbuild')
        import logging
        logging.getLogger().handlers[:] = [world.CaptureHandler(k)]
        sc3.init('nrt')
        main = sm.main
        spawn_thread = lambda name, fn: _k_thread(k, name, fn)
    import sc3.synth.synthdef as ssdf
    import sc3.synth.ugen as sug
    import sc3.synth._graphparam as sgp
    import sc3.synth.synthdesc as ssdc
    import sc3.synth.ugens as ugns
    import importlib
    import pkgutil
    mods = [ssdf, sug, sgp, ssdc, sm]
    for mi in pkgutil.iter_modules(ugns.__path__):
        mods.append(importlib.import_module('sc3.synth.ugens.' + mi.name))
    k.enable_monitoring(preempt_codes=K.code_objects(*mods))

    results = {}
    # the heap of this world differs from the pristine one's: a build whose
    # result depends on object addresses (iteration over a set of ugens)
    # cannot agree with it by accident of a shared fork
    keep = [[object() for _ in range(tape.draw(4096))],
            [bytearray(tape.draw(97) + 1) for _ in range(tape.draw(512))]]
    single = len(case['threads']) == 1
    residue = []

    def check_idle(where):
        cur = main._current_synthdef
        if cur is not None:
            residue.append((where, 'current-synthdef-set'))
            main._current_synthdef = None      # keep going: one report
        if main._def_build_lock.locked():
            residue.append((where, 'build-lock-held'))

    def worker(ti, ops):
        out = []
        for op in ops:
            kind = op[0]
            if kind == 'garbage':
                junk = [bytearray((op[2] * (i + 1)) % 97 + 1)
                        for i in range(op[1])]
                keep.append(junk[::3])
                out.append(['garbage'])
                continue
            try:
                if kind == 'build':
                    d = CC.build(op[1], op[2], op[3])
                    out.append(['ok', op[1], bytes(d.as_bytes()).hex()])
                elif kind == 'twice':
                    a = bytes(CC.build(op[1]).as_bytes()).hex()
                    b = bytes(CC.build(op[1]).as_bytes()).hex()
                    out.append(['ok', op[1], a])
                    out.append(['ok', op[1], b])
                elif kind == 'desc':
                    d = CC.build(op[1])
                    desc = ssdc.SynthDesc.new_from(d)
                    out.append(['ok', op[1], bytes(d.as_bytes()).hex()])
                    out.append(['desc', op[1], desc.name,
                                [str(c.name) for c in desc.controls][:8]])
                    # the finished definition is annotated by its user (its
                    # own variants and metadata dicts): later builds of other
                    # definitions have nothing to do with that
                    # (only where the dicts are the definition's own: not
                    # where the caller passed one that it shares)
                    if 'variants' not in CC.CORPUS[op[1]][1]:
                        for c in list(desc.controls)[:2]:
                            d.variants['annot'] = {str(c.name): 1.25}
                            d.metadata.setdefault(
                                'specs', {})[str(c.name)] = 220
                        d.metadata['note'] = 'annotated'
            except BaseException as e:
                if isinstance(e, (K.KernelFinished, SystemExit)):
                    raise
                out.append(['exc', op[1], type(e).__name__,
                            op[2] if kind == 'build' else None])
                if single:
                    check_idle(f'after failing build {op}')
        results[ti] = out

    done = [False]

    def finalize(outcome):
        if done[0]:
            return None
        done[0] = True
        k.freeze()
        return {'outcome': outcome, 'results': {str(a): b for a, b in
                                                 results.items()},
                'residue': residue, 'post': post_out, 'outside': outside,
                'k': W.kstats(k), 'lines': k.lines}

    post_out = []
    outside = {}
    k.on_finish = lambda oc: emit(finalize(oc))
    if case.get('warm'):
        CC.build('sine')            # earlier use of the library
    threads = [spawn_thread(f'builder{i}', lambda i=i, ops=ops: worker(i, ops))
               for i, ops in enumerate(case['threads'])]
    for t in threads:
        t.join()
    # nothing is building now
    check_idle('after all builders finished')
    import sc3.synth.ugens as u
    ug = u.SinOsc.ar(1)
    outside['synthdef_is_none'] = ug._synthdef is None
    for name in case['post']:
        try:
            post_out.append(['ok', name,
                             bytes(CC.build(name).as_bytes()).hex()])
        except BaseException as e:
            post_out.append(['exc', name, type(e).__name__])
    check_idle('after the final sequential builds')
    return finalize('ok')


class _KThread:
    def __init__(self, k, st):
        self.k, self.st = k, st

    def join(self):
        self.k.join(self.st)


def _k_thread(k, name, fn):
    st = k.spawn(name, fn, role='builder', line_preempt=True)
    k.yield_point('start')
    return _KThread(k, st)


def _sim_thread(w, name, fn):
    t = w.thr.Thread(target=fn, name=name)
    t.start()
    t._st.line_preempt = True
    return t


EXPECTED_EXC = {'func': 'Fail', 'kbd': 'KeyboardInterrupt',
                'rate': 'ValueError', 'name': 'Exception'}


def run_case(case, tape, ctx):
    viol = C.Violations()
    stats = {}
    pr = S.subrun(tape, lambda st, emit: run_pristine(st, emit))['bytes']
    res = S.subrun(tape, lambda st, emit: run_builders(case, st, emit),
                   timeout=40.0)
    agg = W.combine([res])
    nthreads = len(case['threads'])
    if res['outcome'] == 'deadlock':
        viol.add('C20-3', 'builder-parked-forever',
                 'a builder thread is blocked forever (build lock not '
                 'released?)')
    elif res['outcome'] != 'ok':
        return W.result(viol, agg, outcome=res['outcome'])
    nbuilds = nfail = 0
    for ti, out in res['results'].items():
        for r in out:
            if r[0] == 'ok':
                nbuilds += 1
                if r[2] != pr[r[1]]:
                    viol.add(
                        'C20-1', f'bytes-differ-{"concurrent" if nthreads > 1 else "sequential"}',
                        f'definition {r[1]} built by thread {ti} '
                        f'({nthreads} builder(s), mode {case["mode"]}) '
                        f'differs from the pristine build: '
                        f'{diff_at(r[2], pr[r[1]])}')
            elif r[0] == 'exc':
                nfail += 1
                want = EXPECTED_EXC.get(r[3])
                if want is None and pr[r[1]] == 'ERR:' + r[2]:
                    # the graph cannot be built at all on this tree, always
                    # in the same way: nothing to compare
                    stats['corpus-graph-always-raises'] = 1
                elif want is None:
                    viol.add('C20-2', 'good-build-raised',
                             f'a correct build of {r[1]} in thread {ti} '
                             f'raised {r[2]}')
                elif r[2] != want and pr[r[1]] == 'ERR:' + r[2]:
                    stats['corpus-graph-always-raises'] = 1
                elif r[2] != want:
                    viol.add('C20-2', f'failing-build-raised-{r[2]}',
                             f'build of {r[1]} failing by {r[3]} raised '
                             f'{r[2]}, expected {want}')
            elif r[0] == 'desc':
                if r[2] != r[1]:
                    viol.add('C20-1', 'desc-name',
                             f'SynthDesc of {r[1]} has name {r[2]}')
    # every build of the case produced a result
    for ti, ops in enumerate(case['threads']):
        got = res['results'].get(str(ti))
        if got is None and res['outcome'] == 'ok':
            viol.add('C20-3', 'builder-died',
                     f'builder thread {ti} did not finish')
    for where, what in res['residue']:
        viol.add('C20-2', f'residue-{what}', f'{what} {where}')
    if res['outside'] and not res['outside'].get('synthdef_is_none', True):
        viol.add('C20-2', 'residue-ugen-attached',
                 'a unit generator created outside any build belongs to a '
                 'definition')
    for r in res['post']:
        if r[0] != 'ok' and pr[r[1]] == 'ERR:' + r[2]:
            stats['corpus-graph-always-raises'] = 1
        elif r[0] != 'ok':
            viol.add('C20-2', 'later-build-raised',
                     f'a build after the run raised {r[2]}')
        elif r[2] != pr[r[1]]:
            viol.add('C20-2', 'later-build-differs',
                     f'a build of {r[1]} after the run differs from the '
                     f'pristine build: {diff_at(r[2], pr[r[1]])}')
    stats['builds'] = nbuilds
    stats['failing-builds'] = nfail
    stats['line-events'] = res.get('lines', 0)
    sample = {'mode': case['mode'], 'threads': case['threads'][:3],
              'line_mean': case['knobs']['line_mean']}
    return W.result(viol, agg, nontrivial=nthreads > 1
                    and agg['contended'] > 0, sample=sample,
                    extra_probes=stats,
                    features=[case['mode'], f'{nthreads}-builders'])


def diff_at(a, b):
    if len(a) != len(b):
        return f'lengths {len(a) // 2} vs {len(b) // 2} bytes'
    for i in range(0, len(a), 2):
        if a[i:i + 2] != b[i:i + 2]:
            return f'first difference at byte {i // 2}'
    return 'identical'


# ---- hash-seed / fresh-interpreter axis (once per check run) -------------

FRESH = r'''
import sys, json, hashlib, warnings
warnings.simplefilter('ignore')
sys.path.insert(0, sys.argv[1]); sys.path.insert(0, sys.argv[2])
import sc3
sc3._init_logger = lambda *a: None
sc3.LIB_SETUP_FILE = '/nonexistent'
sc3.init(sys.argv[3])
from props import c20_corpus as CC
out = {}
for name in CC.CORPUS:
    a = CC.build_hex(name).encode()
    b = CC.build_hex(name).encode()
    out[name] = [hashlib.sha1(a).hexdigest(), hashlib.sha1(b).hexdigest()]
print(json.dumps(out))
import os; os._exit(0)
'''


def extra_checks(tier, seed):
    """-> (violations, stats).  Corpus built in fresh interpreters under
    different hash seeds, ASLR on, in both modes."""
    from sim import runner as R
    repo = os.path.abspath(os.environ.get('VERIF_REPO', '/repo'))
    seeds = [0, 1, 2] if tier != 'thorough' else [0, 1, 2, 3, 7, 42, 1000,
                                                  'random']
    procs = []
    for i, hs in enumerate(seeds):
        mode = 'nrt' if i % 2 == 0 else 'rt'
        env = dict(os.environ, PYTHONHASHSEED=str(hs),
                   PYTHONDONTWRITEBYTECODE='1')
        procs.append((hs, mode, subprocess.Popen(
            [sys.executable, '-c', FRESH, repo, R.VERIF, mode],
            stdout=subprocess.PIPE, stderr=subprocess.DEVNULL, env=env)))
    outs = []
    viol = []
    for hs, mode, p in procs:
        try:
            o, _ = p.communicate(timeout=120)
            outs.append((hs, mode, json.loads(o.decode().strip().splitlines()[-1])))
        except Exception as e:      # noqa
            viol.append({'oracle': 'C20-1', 'key': 'fresh-interpreter-failed',
                         'detail': f'PYTHONHASHSEED={hs} mode {mode}: {e!r}'})
    if outs:
        ref = outs[0][2]
        for hs, mode, o in outs:
            for name, (a, b) in o.items():
                if a != b:
                    viol.append({
                        'oracle': 'C20-1', 'key': 'bytes-differ-repeated',
                        'detail': f'{name} built twice in one fresh '
                                  f'interpreter (PYTHONHASHSEED={hs}, {mode}) '
                                  f'gave different bytes'})
                elif a != ref[name][0]:
                    viol.append({
                        'oracle': 'C20-1', 'key': 'bytes-differ-hashseed',
                        'detail': f'{name}: PYTHONHASHSEED={hs} ({mode}) vs '
                                  f'PYTHONHASHSEED={outs[0][0]} '
                                  f'({outs[0][1]}) give different bytes'})
    return viol, {'fresh-interpreters': len(outs),
                  'fresh-builds': sum(len(o[2]) * 2 for o in outs)}
