"""C18 - incoming messages reach exactly the responders that should fire.

RT world: simulated remote endpoints send datagrams (valid messages and
bundles, OSC patterns, and F5-mutated ones: truncation, bit flips, tampered
bundle-element lengths, junk, empty, trailing bytes, duplicates) to the
library's UDP ports while the driver creates, enables, disables, frees,
one-shots and re-functions responders and runs CmdPeriod and the action
registries.  Oracle: responder-registry model + textbook OSC pattern matcher
(both readings) + strict independent decoder; receiver liveness with a
deterministic hang detector (LINE-event budget)."""

import struct

from sim import kernel as K
from sim import osc
from sim import world
from models import oscpattern
from . import common as C

ID = 'C18'
QUICK_RUNS = 1200
THOROUGH_SECONDS = 480

PATHS = ['/a', '/ab', '/abc', '/a/b', '/a/c', '/foo', '/foobar', '/b',
         '/x/y',
         # a comma is a plain character outside braces; an address that is
         # no well-formed pattern still equals itself
         '/a,b', '/a[']
PATTERNS = ['/a*', '/a?', '/?b', '/[a-c]b', '/[!a]b', '/{a,foo}',
            '/{foo,foobar}', '/a/*', '/*/b', '/*', '/fo[!x]bar', '/foo*',
            '/*bar', '/a[a-c]c', '/ab[!c]', '/?', '/a/[bc]', '/{ab,abc}',
            '/fo?', '/*b*', '/[a-b]', '/x/*', '/x/?', '/{a', '/a,*']
SRCS = [['127.0.0.1', 7001], ['127.0.0.1', 7002], ['10.0.0.5', 7001]]
LIB_PORT = 57120
XPORT = 57130
ARGVALS = [0, 1, 2, -3, 0.5, 2.25, 'x', 'yy', 7]

# decoding errors of the strict reference decoder that leave no room for a
# lenient reading (the packet is cut short inside something it announces)
# (truncated floats are padded by the library on purpose: some senders omit
# trailing zero bytes)
UNAMBIGUOUS = ('unterminated string', 'truncated int', 'truncated int64',
               'truncated timetag', 'truncated blob size', 'bad blob size',
               'truncated bundle header', 'truncated element size')

COMPONENTS = {
    'real': 'sc3 OscUdpInterface receive thread, _osclib decoder, '
            'SystemClock dispatch, responders (OscFunc, dispatchers, '
            'matchers), _oscmatch, SystemAction/ServerAction, '
            'NotificationCenter',
    'stub': 'threading primitives, time, UDP sockets/network, remote senders; '
            'independent strict decoder and textbook pattern matcher as '
            'oracles'}


# ------------------------------------------------------------ generation

def gen_args(tp):
    return [tp.choice(ARGVALS) for _ in range(tp.draw(4))]


def gen_template(tp):
    if tp.draw(3):
        return None
    t = []
    for _ in range(1 + tp.draw(3)):
        k = tp.draw(5)
        if k == 0:
            t.append(None)
        elif k == 1:
            t.append(['pred', tp.choice(['pos', 'isstr', 'num'])])
        else:
            t.append(tp.choice(ARGVALS))
    return t


def gen_packet(tp, ctr, used, depth=0):
    if depth < 2 and tp.draw(4) == 0:
        n = 1 + tp.draw(3)
        return ['b', tp.choice(['imm', 'past', 'future', 'imm']),
                [gen_packet(tp, ctr, used, depth + 1) for _ in range(n)]]
    ctr[0] += 1
    addr = tp.choice(used * 8 + PATHS + PATTERNS) if used \
        else tp.choice(PATHS + PATTERNS)
    return ['m', addr, [ctr[0]] + gen_args(tp)]


def gen_mut(tp):
    k = tp.draw(20)
    if k == 0:
        return ['trunc', tp.draw(64)]
    if k == 1:
        return ['flip', tp.draw(96), tp.draw(8)]
    if k == 2:
        return ['len', tp.choice([-4, -8, -1, 0, 2 ** 31 - 1, 'len+4', 3, 5,
                                  -16, 1 << 20])]
    if k == 3:
        return ['junk', [tp.draw(256) for _ in range(tp.draw(24))]]
    if k == 4:
        return ['empty']
    if k == 5:
        return ['append', [tp.draw(256) for _ in range(1 + tp.draw(7))]]
    if k == 6:
        return ['dup']
    if k == 7:
        # damage near the end: the later elements of a bundle, decoded after
        # the earlier ones
        return ['fliptail', tp.draw(40), tp.draw(8)]
    if k == 8:
        # a bundle whose earlier elements are fine and whose last one is not
        return ['badlast', tp.choice(['hibit', 'tag', 'cut'])]
    if k == 10:
        # a printable byte in the zero padding of the address
        return ['padjunk', tp.choice([ord('o'), ord('/'), ord('b')])]
    if k == 9:
        # a blob argument that announces an impossible size
        return ['blobsize', tp.choice([-4, -1, -8, -2 ** 31, 2 ** 31 - 1,
                                       1 << 20])]
    return None


def gen_case(tp, tier):
    big = tier == 'thorough'
    knobs = C.gen_knobs(tp, fault_free_pm=300, max_steps=60000)
    ops = []
    nresp = 0
    ctr = [0]
    n = 6 + tp.draw(40 if big else 24)
    nact = 0
    used = []
    for _ in range(n):
        r = tp.draw(100)
        if r >= 70 and not nresp:
            r = 0
        if r < 3 and 0 < nresp < 10:
            # another responder with the very same callback object, path and
            # dispatcher as an earlier one
            ops.append(['twin', nresp, tp.draw(nresp)])
            nresp += 1
        elif r < 22 and nresp < 10:
            src = None
            if tp.draw(3) == 0:
                s = tp.choice(SRCS)
                src = [s[0], s[1] if tp.draw(2) else None]
            path = tp.choice(PATHS + used)     # several on one path
            used.append(path)
            ops.append(['new', nresp, tp.choice(['exact', 'exact', 'match']),
                        path, src,
                        XPORT if tp.draw(5) == 0 else None,
                        gen_template(tp), tp.draw(8) == 0,
                        tp.choice([None] * 10 + ['free', 'disable',
                                                 'raise'])])
            nresp += 1
            if tp.draw(10) == 0 and nresp < 10:
                # two plain responders on one path, the first of which frees
                # or disables the second when it runs: the second one is not
                # invoked with that message any more
                kind2 = ops[-1][2]
                ops[-1][4:9] = [None, None, None, False,
                                [tp.choice(['free_other', 'disable_other']),
                                 nresp]]
                ops.append(['new', nresp, kind2, path, None, None, None,
                            False, None])
                nresp += 1
        elif r < 70:
            pk = gen_packet(tp, ctr, used)
            mut = gen_mut(tp)
            if mut is not None and mut[0] == 'badlast' and pk[0] == 'm':
                pk = ['b', 'imm', [pk, gen_packet(tp, ctr, used, 2)]]
            if mut is not None and mut[0] == 'blobsize':
                while pk[0] != 'm':
                    pk = pk[2][0]
                pk = ['m', pk[1], [pk[2][0], ['blob', [1, 2, 3, 4, 5]]]
                      + pk[2][1:2]]
            ops.append(['send', tp.draw(len(SRCS)),
                        XPORT if tp.draw(6) == 0 else LIB_PORT, pk, mut])
        elif r < 88 and nresp:
            k = tp.draw(7)
            rid = tp.draw(nresp)
            ops.append([['enable', rid], ['disable', rid], ['free', rid],
                        ['oneshot', rid], ['setfunc', rid], ['enable', rid],
                        ['disable', rid]][k])
        elif r < 89:
            if tp.draw(3) == 0:
                # CmdPeriod run by a responder in the middle of a packet: the
                # messages of that packet received but not yet dispatched
                # still reach the (permanent) responders they are for
                ops.append(['panic', 1 + tp.draw(3), 1 + tp.draw(3)])
            else:
                ops.append(['cmdperiod'])
        elif r < 96:
            cname = tp.choice(['StartUp', 'ServerTree'])
            for _ in range(2 + tp.draw(4)):        # a burst on one registry
                k = tp.draw(4)
                scope = tp.choice(['all', 'all', 'default', 'srv']) \
                    if cname == 'ServerTree' else 'all'
                if k < 2:
                    # (now and then an action that is already registered,
                    # possibly for another scope)
                    aid = tp.draw(nact) if nact and tp.draw(3) == 0 else nact
                    ops.append(['sa', cname, 'add', aid, scope])
                    nact = max(nact, aid + 1)
                elif k == 2 and nact:
                    ops.append(['sa', cname, 'remove', tp.draw(nact), scope])
                else:
                    ops.append(['sa', cname, 'run', 0])
            ops.append(['sa', cname, 'run', 0])
        else:
            oi, msg = tp.draw(2), tp.choice(['m1', 'm2'])
            for _ in range(2 + tp.draw(4)):
                k = tp.draw(4)
                ops.append(['nc', ['register', 'register', 'unregister',
                                   'notify'][k], oi, msg, tp.draw(3)])
            ops.append(['nc', 'notify', oi, msg, 0])
    case = {'knobs': knobs, 'ops': ops}
    if tp.draw(4) == 0:
        # actions registered before the library starts: StartUp runs them in
        # registration order when the start-up is finished; one of them may
        # defer another action, which - the start-up being finished - runs
        # at once
        st = []
        for i in range(1 + tp.draw(3)):
            st.append(['defer', i, 10 + i] if tp.draw(3) == 0
                      else ['plain', i])
        case['startup'] = st
    return case


def shrink_candidates(case):
    import copy
    ops = case['ops']
    n = len(ops)
    step = max(1, n // 2)
    while step >= 1:
        for i in range(0, n, step):
            c = copy.deepcopy(case)
            del c['ops'][i:i + step]
            yield c
        step //= 2
    for i, op in enumerate(ops):
        if op[0] == 'send' and op[4] is not None:
            c = copy.deepcopy(case)
            c['ops'][i][4] = None
            yield c
        if op[0] == 'send' and op[3][0] == 'b':
            for sub in op[3][2]:
                c = copy.deepcopy(case)
                c['ops'][i][3] = sub
                yield c
        if op[0] == 'new':
            for idx, val in ((4, None), (5, None), (6, None), (7, False),
                             (8, None)):
                if op[idx] != val:
                    c = copy.deepcopy(case)
                    c['ops'][i][idx] = val
                    yield c
    kn = case['knobs']
    for key, val in (('stall_pm', 0), ('cost', 0.0), ('lat', 0),
                     ('time_yield', False), ('policy', 'random')):
        if kn.get(key) != val:
            c = copy.deepcopy(case)
            c['knobs'][key] = val
            yield c


# ------------------------------------------------------------ encoding

def encode(pk, now_tag):
    if pk[0] == 'm':
        return osc.encode_message(
            pk[1], [bytes(a[1]) if isinstance(a, list) and a[:1] == ['blob']
                    else a for a in pk[2]])
    tt = {'imm': 1, 'past': now_tag - (1 << 32),
          'future': now_tag + (1 << 31)}[pk[1]]
    return osc.encode_bundle(tt, [encode(e, now_tag) for e in pk[2]])


def mutate(data, mut):
    if mut is None or mut[0] == 'dup':
        return data
    k = mut[0]
    if k == 'trunc':
        return data[:mut[1] % (len(data) + 1)]
    if k == 'flip':
        if not data:
            return data
        b = bytearray(data)
        b[mut[1] % len(b)] ^= 1 << mut[2]
        return bytes(b)
    if k == 'fliptail':
        if not data:
            return data
        b = bytearray(data)
        b[len(b) - 1 - mut[1] % len(b)] ^= 1 << mut[2]
        return bytes(b)
    if k == 'padjunk':
        end = data.find(b'\0')
        if data[:1] != b'/' or end < 0 or (end + 1) % 4 == 0:
            return data         # (a single padding byte is the terminator)
        b = bytearray(data)
        b[end + 1] = mut[1]
        return bytes(b)
    if k == 'blobsize':
        # (the message was generated with a blob as its second argument:
        # address, ',ib...' tags, int32, then the blob's size field)
        c = data.find(b',ib')
        if data[:1] != b'/' or c < 0:
            return data
        tags_end = data.index(b'\0', c)
        at = (tags_end + 4) & ~3
        b = bytearray(data)
        if at + 8 > len(b):
            return data
        b[at + 4:at + 8] = struct.pack('>i', mut[1])
        return bytes(b)
    if k == 'badlast':
        if len(data) < 20 or data[:8] != b'#bundle\0':
            return data
        i = start = 16
        while i + 4 <= len(data):
            size = struct.unpack('>i', data[i:i + 4])[0]
            start = i + 4
            i = start + size
        b = bytearray(data)
        if mut[1] == 'cut':
            return bytes(b[:-4])
        at = start + 1
        if mut[1] == 'tag':
            c = data.find(b',', start)
            at = c + 1 if c >= 0 and c + 1 < len(b) else at
        if at < len(b):
            b[at] |= 0x80
        return bytes(b)
    if k == 'len':
        if len(data) >= 20 and data[:8] == b'#bundle\0':
            v = len(data) + 4 if mut[1] == 'len+4' else mut[1]
            b = bytearray(data)
            b[16:20] = struct.pack('>i', v)
            return bytes(b)
        return data
    if k == 'junk':
        return bytes(mut[1])
    if k == 'empty':
        return b''
    if k == 'append':
        return data + bytes(mut[1])
    return data


PREDS = {
    'pos': lambda x: isinstance(x, (int, float)) and x > 0,
    'isstr': lambda x: isinstance(x, str),
    'num': lambda x: isinstance(x, (int, float)),
}


# ------------------------------------------------------------ model

class RespError(Exception):
    """raised by a responder's function on purpose"""


class Resp:
    def __init__(self, rid, kind, path, src, rport, template, oneshot,
                 selfact):
        self.rid = rid
        self.kind = kind
        self.path = path
        self.src = src
        self.rport = rport
        self.template = template
        self.oneshot = oneshot
        self.selfact = selfact
        self.enabled = True
        self.freed = False
        self.fired = 0
        self.ver = 0
        self.permanent = False
        self.label = rid        # who the callback says it is (a callback
        self.fver = 0           # object may be shared by several responders)


class Registry:
    def __init__(self):
        self.resp = {}
        self.active = {'exact': {}, 'match': {}}    # path -> [rid] in order

    def add(self, r):
        self.resp[r.rid] = r
        self._enable(r)

    def _enable(self, r):
        r.enabled = True
        self.active[r.kind].setdefault(r.path, []).append(r.rid)

    def _disable(self, r):
        r.enabled = False
        lst = self.active[r.kind].get(r.path, [])
        if r.rid in lst:
            lst.remove(r.rid)
            if not lst:
                del self.active[r.kind][r.path]

    def enable(self, rid):
        r = self.resp[rid]
        if not r.enabled:
            self._enable(r)

    def disable(self, rid):
        r = self.resp[rid]
        if r.enabled:
            self._disable(r)

    def free(self, rid):
        r = self.resp[rid]
        r.freed = True
        if r.enabled:
            self._disable(r)

    def accepts(self, r, args, src, rport):
        """True / False / None (unspecified)"""
        if r.src is not None:
            if r.src[0] != src[0]:
                return False
            if r.src[1] is not None and r.src[1] != src[1]:
                return False
        if r.rport is not None and r.rport != rport:
            return False
        amb = False
        if r.template is not None:
            for i, item in enumerate(r.template):
                if i >= len(args):
                    if item is None:
                        amb = True       # "any value" at a missing position
                        continue
                    return False
                if item is None:
                    continue
                if isinstance(item, list):
                    if not PREDS[item[1]](args[i]):
                        return False
                elif isinstance(args[i], bool) or item != args[i] \
                        or isinstance(item, str) != isinstance(args[i], str):
                    return False
        return None if amb else True

    def expected(self, addr, args, src, rport):
        """-> (list of (rid, group) expected in order per group, set of rids
        whose expectation is unspecified)"""
        exp = []
        amb = set()
        for rid in list(self.active['exact'].get(addr, [])):
            r = self.resp[rid]
            a = self.accepts(r, args, src, rport)
            if a is None:
                amb.add(rid)
            elif a:
                exp.append((rid, ('exact', addr)))
        for path, lst in list(self.active['match'].items()):
            v = oscpattern.verdict(addr, path)
            for rid in list(lst):
                r = self.resp[rid]
                if v is None:
                    amb.add(rid)
                    continue
                if not v:
                    continue
                a = self.accepts(r, args, src, rport)
                if a is None:
                    amb.add(rid)
                elif a:
                    exp.append((rid, ('match', path)))
        return exp, amb

    def fired(self, rid):
        """model effect of one invocation"""
        r = self.resp[rid]
        r.fired += 1
        if r.oneshot:
            self.free(rid)
        elif r.selfact == 'free':
            self.free(rid)
        elif r.selfact == 'disable':
            self.disable(rid)
        elif isinstance(r.selfact, list) and r.selfact[1] in self.resp:
            getattr(self, r.selfact[0].split('_')[0])(r.selfact[1])


# ------------------------------------------------------------ execution

def run_case(case, tape, ctx):
    knobs = case['knobs']
    startup_log = []
    if case.get('startup'):
        import sc3.base.systemactions as sac0

        def mk_start(item):
            def act():
                startup_log.append(item[1])
                if item[0] == 'defer':
                    sac0.StartUp.defer(
                        lambda: startup_log.append(item[2]))
            return act
        for item in case['startup']:
            sac0.StartUp.add(mk_start(item))
    w = world.RtWorld(tape, knobs, seed=1).boot()
    k = w.kernel
    main = w.main
    viol = C.Violations()
    stats = {}

    import sc3.base.responders as srpd
    import sc3.base.netaddr as snad
    import sc3.base.systemactions as sac
    import sc3.base.model as smdl
    if case.get('startup'):
        want = []
        for item in case['startup']:
            want.append(item[1])
            if item[0] == 'defer':
                want.append(item[2])
        stats['startup-actions'] = len(want)
        if startup_log != want:
            viol.add('C18-4', 'StartUp-actions-at-startup',
                     f'actions registered before the start: ran '
                     f'{startup_log}, registered (with what they defer, '
                     f'which runs at once) {want}')
    import sc3.base.clock as sclk
    import sc3.base._osclib as oli
    import sc3.base._oscinterface as sosc
    import sc3.synth.server as ssrv

    # deterministic hang detector on the decoding path
    k.enable_monitoring(budget_codes=K.code_objects(oli, sosc),
                        budget=150000)

    def bump(key, n=1):
        stats[key] = stats.get(key, 0) + n

    reg = Registry()
    robj = {}
    special = {}        # the responders of the 'panic' operation
    funcs = {}          # rid -> the callback object it currently uses
    shared = set()      # responders whose callback object another one uses too
    inv = []           # invocation records

    def make_func(rid, ver):
        def f(msg, time, addr, recv_port):
            inv.append({'rid': rid, 'ver': ver, 'msg': list(msg),
                        'time': time, 'host': addr.hostname,
                        'port': addr.port, 'rport': recv_port, 'now': k.now})
            r = reg.resp[rid] if rid != 'probe' else None
            if r is not None and not r.oneshot:
                if r.selfact == 'free':
                    robj[rid].free()
                elif r.selfact == 'disable':
                    robj[rid].disable()
            if r is not None and isinstance(r.selfact, list) \
                    and not r.oneshot and r.selfact[1] in robj:
                getattr(robj[r.selfact[1]], r.selfact[0].split('_')[0])()
                bump('responder-' + r.selfact[0])
            if r is not None and r.selfact == 'raise':
                bump('responder-raised')
                raise RespError(f'responder {rid}')
        return f

    probe = srpd.OscFunc(make_func('probe', 0), '/probe')
    probe.permanent = True
    main.open_udp_port(XPORT)
    offset = sclk.SystemClock._elapsed_osc_offset
    init_now = main._init_time - k.epoch

    sa_model = {'StartUp': {}, 'ServerTree': {}}
    sa_calls = []
    sa_funcs = {}
    nc_model = {}
    nc_calls = []
    nc_objs = [type('Obj', (), {})() for _ in range(2)]
    nc_listeners = [type('Lis', (), {})() for _ in range(3)]
    nprobe = [0]

    def errors():
        return sum(1 for r in w.logh.records
                   if r[0] == 'ERROR' and 'during processing' in r[2])

    def recv_alive():
        ok = True
        for t in k.threads:
            if t.name.startswith('OscUdpInterface'):
                if t.exc is not None or t.state == K.DONE:
                    viol.add('C18-3', 'receiver-died',
                             f'receive thread {t.name}: state '
                             f'{K.STATE_NAMES[t.state]}, exception {t.exc!r}')
                    ok = False
                elif t.state != K.RECV:
                    viol.add('C18-3', 'receiver-not-listening',
                             f'receive thread {t.name} is '
                             f'{K.STATE_NAMES[t.state]} at quiescence')
                    ok = False
        if k.hangs:
            viol.add('C18-3', 'receiver-hang',
                     f'decoding spun without progress: {k.hangs[0]}')
            ok = False
        for t in k.threads:
            if t.name in ('SystemClock', 'AppClock') and (
                    t.exc is not None or t.state == K.DONE):
                viol.add('C18-3', 'clock-thread-died', f'{t.name}: {t.exc!r}')
                ok = False
        return ok

    def settle():
        k.wait_idle(k.now + 10.0)

    def approx_msg(a, b):
        if len(a) != len(b):
            return False
        for x, y in zip(a, b):
            if isinstance(x, float) or isinstance(y, float):
                if isinstance(x, (str, bytes)) or isinstance(y, (str, bytes)):
                    return False
                if abs(x - y) > 1e-6 * max(1.0, abs(x)):
                    return False
            elif x != y or type(x) is not type(y):
                return False
        return True

    def do_send(op):
        _, si, port, pk, mut = op
        src = tuple(SRCS[si])
        now_tag = offset + int((k.now - init_now) * 2.0 ** 32)
        data = mutate(encode(pk, now_tag), mut)
        mark = len(inv)
        e0 = errors()
        t_send = k.now
        copies = 2 if mut is not None and mut[0] == 'dup' else 1
        for c in range(copies):
            w.net.send(src, ('127.0.0.1', port), data, faults=False,
                       delay=50e-6 * (1 + c))
        if mut is not None:
            bump('F5-' + mut[0])
        settle()
        got = inv[mark:]
        nerr = errors() - e0
        pkt, err = osc.try_decode(data)
        bump('datagrams')
        if not recv_alive():
            return False
        if err is not None:
            bump('strict-reject')
            if nerr:
                bump('library-reject')
                if got:
                    viol.add('C18-3', 'dispatch-before-decode',
                             f'a datagram the library failed to decode '
                             f'({err}) still invoked {len(got)} responder(s)')
                    return False
            elif got and mut is not None and mut[0] == 'len':
                viol.add('C18-3', 'malformed-length-dispatched',
                         f'a bundle whose first element length field was '
                         f'set to {mut[1]} ({err}) still invoked '
                         f'{len(got)} responder(s)')
                return False
            elif got and mut is not None and mut[0] == 'padjunk':
                # whatever a receiver makes of junk in the padding, the
                # address ends at its first zero byte
                true_addr = data[:data.find(b'\0')].decode('ascii', 'replace')
                bad = [g['msg'] for g in got
                       if g.get('msg') and g['msg'][0] != true_addr]
                if bad:
                    viol.add('C18-3', 'padding-glued-onto-address',
                             f'a message for {true_addr!r} with the byte '
                             f'{mut[1]:#x} in its address padding was '
                             f'dispatched as {bad[0][0]!r}')
                    return False
                for g in got:
                    if g['rid'] != 'probe':
                        reg.fired(g['rid'])
                return True
            elif got and mut is not None and mut[0] == 'blobsize':
                viol.add('C18-3', 'malformed-blob-size-dispatched',
                         f'a message whose blob announces the size {mut[1]} '
                         f'({err}) invoked {len(got)} responder(s) with '
                         f'{[g.get("msg") for g in got][:2]}')
                return False
            elif got and mut is not None and mut[0] == 'trunc' \
                    and any(x in err for x in UNAMBIGUOUS):
                # the datagram ends in the middle of an item the packet
                # itself announces: no reading of OSC accepts it
                viol.add('C18-3', 'truncated-datagram-dispatched',
                         f'a datagram that ends inside an announced item '
                         f'({err}) invoked {len(got)} responder(s) with '
                         f'{[g.get("msg") for g in got][:2]}')
                return False
            elif got:
                bump('lenient-accept')
                bump('lenient-accept-err-' + err.split(' ')[0] + '-'
                     + err.split(' ')[-1])
                bump('lenient-accept-' + (mut[0] if mut else 'none')
                     + (f'-{mut[1]}' if mut and mut[0] == 'len' else ''))
                for g in got:           # keep the model in step
                    if g['rid'] != 'probe':
                        reg.fired(g['rid'])
            return True
        if nerr:
            bump('strict-accept-library-reject')
            return True
        msgs = osc.flatten(pkt)
        if any(set(m.tags[1:]) - set('ifsb') for _, m in msgs):
            # only i f s b are required by OSC 1.0; what a receiver does
            # with optional type tags (a bit flip can produce them) is its
            # own business: no verdict, keep the model in step
            bump('optional-typetag-no-verdict')
            for g in got:
                if g['rid'] != 'probe':
                    reg.fired(g['rid'])
            return True
        # the library dispatches the messages of a packet ordered by time
        order = sorted(range(len(msgs)),
                       key=lambda i: msgs[i][0] or 0)
        # a responder whose function raises ends the dispatch of the packet
        # there: which of the other responders of that packet still run is
        # not specified - they may, once each; everything else stays exact
        # (a freed, disabled or fired one-shot responder never runs)
        raisers = False
        for i in order:
            e_, a_ = reg.expected(msgs[i][1].addr, msgs[i][1].args, src,
                                  port)
            for rid in [x for x, _ in e_] + list(a_):
                if reg.resp[rid].selfact == 'raise':
                    raisers = True
        if raisers:
            bump('packets-with-raising-responder')
        for c in range(copies):
            for i in order:
                tt, m = msgs[i]
                args = m.args
                exp, amb = reg.expected(m.addr, args, src, port)
                if raisers:
                    amb = set(amb) | {rid for rid, _ in exp}
                    exp = []
                exp_ids = [rid for rid, _ in exp]
                mine = [g for g in got
                        if g['msg'] and g['msg'][0] == m.addr
                        and approx_msg(g['msg'][1:], args)
                        and not g.get('_used')]
                # take one invocation per expected responder; within one
                # dispatcher and path they must come in registration order
                pos_in_group = {}
                for rid, grp in exp:
                    if reg.resp[rid].freed or not reg.resp[rid].enabled:
                        # freed / disabled by a responder that ran before it
                        # with this very message: never invoked
                        bump('removed-by-an-earlier-responder')
                        continue
                    hit = None
                    for exact in (True, False):
                        for g in mine:
                            if g['rid'] == reg.resp[rid].label \
                                    and not g.get('_used') and (
                                        not exact
                                        or g['ver'] == reg.resp[rid].fver):
                                hit = g
                                break
                        if hit is not None:
                            break
                    if hit is None:
                        r = reg.resp[rid]
                        viol.add(
                            'C18-1', f'missing-{r.kind}'
                            + ('-oneshot-peer' if any(
                                reg.resp[x].oneshot or reg.resp[x].selfact
                                for x in exp_ids if x != rid) else '')
                            + ('-template' if r.template else ''),
                            f'message {m.aslist()} from {src} on port {port}: '
                            f'responder {rid} ({r.kind} {r.path}, src '
                            f'{r.src}, port {r.rport}, template '
                            f'{r.template}) was not invoked; invoked: '
                            f'{[g["rid"] for g in mine]}')
                        return False
                    hit['_used'] = True
                    pos = next(i for i, x in enumerate(got) if x is hit)
                    if pos < pos_in_group.get(grp, -1):
                        viol.add('C18-1', f'order-{grp[0]}',
                                 f'message {m.aslist()}: responders on '
                                 f'{grp[1]} were invoked out of registration '
                                 f'order ({[x["rid"] for x in mine]}, '
                                 f'registered {exp_ids})')
                        return False
                    pos_in_group[grp] = pos
                    check_args(hit, m, tt, src, port, t_send, rid)
                    reg.fired(rid)
                    bump('invocations-checked')
                room = {}           # label -> invocations it may still take
                for x in amb:
                    room[reg.resp[x].label] = room.get(reg.resp[x].label,
                                                       0) + 1
                for g in mine:
                    if g.get('_used'):
                        continue
                    if room.get(g['rid'], 0) > 0:
                        room[g['rid']] -= 1
                        g['_used'] = True
                        bump('ambiguous-spec')
                        reg.fired(g['rid'])
                        continue
                if amb:
                    bump('ambiguous-message')
        left = [g for g in got if not g.get('_used')]
        if left:
            g = left[0]
            r = reg.resp.get(g['rid'])
            why = 'unknown'
            if r is not None:
                why = ('freed' if r.freed else 'disabled' if not r.enabled
                       else 'fired-one-shot' if r.oneshot and r.fired
                       else 'not-matching')
                if why == 'not-matching' and r.kind == 'match':
                    why = 'pattern-not-matching'
            viol.add('C18-1', f'unexpected-{why}',
                     f'responder {g["rid"]} ({why}; '
                     f'{r.kind + " " + r.path if r else ""}) was invoked '
                     f'with {g["msg"]} from {src} on port {port}')
            return False
        return True

    def check_args(g, m, tt, src, port, t_send, rid=None):
        if g['host'] != src[0] or g['port'] != src[1] or g['rport'] != port:
            viol.add('C18-2', 'sender-or-port-argument',
                     f'responder {g["rid"]} got sender {g["host"]}:'
                     f'{g["port"]} port {g["rport"]}, message came from '
                     f'{src} on {port}')
        r = reg.resp.get(g['rid'] if rid is None else rid)
        if r is not None and g['ver'] != r.fver:
            viol.add('C18-2', 'stale-function',
                     f'responder {g["rid"]} ran function version '
                     f'{g["ver"]}, current is {r.ver}')
        if tt is not None and tt != 1:
            want = (tt - offset) * 2.0 ** -32
            if abs(g['time'] - want) > 1e-6:
                viol.add('C18-2', 'bundle-time-argument',
                         f'responder {g["rid"]} got time {g["time"]} for a '
                         f'bundle stamped {want}')
        else:
            lo = t_send - init_now
            hi = g['now'] - init_now
            if not (lo - 1e-6 <= g['time'] <= hi + 1e-6):
                viol.add('C18-2', 'message-time-argument',
                         f'responder {g["rid"]} got time {g["time"]} for a '
                         f'message sent at {lo} and dispatched at {hi}')

    def send_probe():
        nprobe[0] += 1
        mark = len(inv)
        data = osc.encode_message('/probe', [100000 + nprobe[0]])
        w.net.send(('127.0.0.1', 7009), ('127.0.0.1', LIB_PORT), data,
                   faults=False, delay=50e-6)
        settle()
        got = [g for g in inv[mark:] if g['rid'] == 'probe']
        bump('probes-sent')
        if len(got) != 1:
            viol.add('C18-3', 'probe-not-dispatched',
                     f'a valid message sent after a faulty datagram was '
                     f'dispatched {len(got)} times')
            return False
        return recv_alive()

    done = [False]

    def finalize(outcome):
        if done[0]:
            return None
        done[0] = True
        k.freeze()
        if outcome == 'deadlock':
            viol.add('C18-3', 'deadlock', 'all threads parked forever')
        if outcome == 'livelock':
            viol.add('C18-3', 'receiver-hang', 'kernel detected a livelock')
        nsend = sum(1 for o in case['ops'] if o[0] == 'send')
        return C.result(k, viol, outcome, k.contended > 0 and nsend > 0,
                        sample={'ops': case['ops'][:8]}, extra_probes=stats)

    k.on_finish = lambda oc: ctx.emit(finalize(oc))

    ok = True
    for op in case['ops']:
        kind = op[0]
        if kind == 'new':
            _, rid, rkind, path, src, rport, template, oneshot, selfact = op
            r = Resp(rid, rkind, path, src, rport, template, oneshot,
                     selfact)
            reg.add(r)
            sid = None if src is None else snad.NetAddr(src[0], src[1])
            tmpl = None
            if template is not None:
                tmpl = [PREDS[x[1]] if isinstance(x, list) else x
                        for x in template]
            ctor = srpd.OscFunc if rkind == 'exact' else srpd.OscFunc.matching
            funcs[rid] = make_func(rid, 0)
            robj[rid] = ctor(funcs[rid], path, sid, rport,
                             arg_template=tmpl)
            if oneshot:
                robj[rid].one_shot()
            bump('responders')
        elif kind == 'twin':
            _, rid, oid = op
            o = reg.resp.get(oid)
            if o is None or o.freed or o.src is not None \
                    or o.rport is not None or o.template is not None \
                    or o.oneshot or o.selfact or oid not in funcs:
                continue
            # (sharing responders are not made one-shot: the lenient paths
            # below keep the model in step by what the callback reports)
            shared.update((rid, oid))
            r = Resp(rid, o.kind, o.path, None, None, None, False, None)
            r.label, r.fver = o.label, o.fver
            reg.add(r)
            ctor = srpd.OscFunc if o.kind == 'exact' \
                else srpd.OscFunc.matching
            robj[rid] = ctor(funcs[oid], o.path)
            funcs[rid] = funcs[oid]
            bump('responders-sharing-a-callback')
        elif kind in ('enable', 'disable', 'free'):
            rid = op[1]
            if rid not in robj:
                continue
            if kind == 'enable' and reg.resp[rid].freed:
                continue          # using a freed responder: not generated
            getattr(robj[rid], kind)()
            getattr(reg, kind)(rid)
            bump('op-' + kind)
        elif kind == 'oneshot':
            rid = op[1]
            if rid not in robj or reg.resp[rid].oneshot \
                    or reg.resp[rid].freed or rid in shared:
                continue
            robj[rid].one_shot()
            reg.resp[rid].oneshot = True
            bump('op-oneshot')
        elif kind == 'setfunc':
            rid = op[1]
            if rid not in robj or reg.resp[rid].oneshot \
                    or reg.resp[rid].freed or not reg.resp[rid].enabled:
                continue
            reg.resp[rid].ver += 1
            reg.resp[rid].label = rid
            reg.resp[rid].fver = reg.resp[rid].ver
            funcs[rid] = make_func(rid, reg.resp[rid].ver)
            robj[rid].func = funcs[rid]
            bump('op-setfunc')
        elif kind == 'panic':
            if 'keep' not in special:
                def panic_cb(msg, time, addr, recv_port):
                    inv.append({'rid': 'panic', 'msg': list(msg)})
                    sac.CmdPeriod.run()
                special['keep'] = srpd.OscFunc(make_func('probe', 0),
                                               '/c18/keep')
                special['keep'].permanent = True
                special['panic'] = srpd.OscFunc(panic_cb, '/c18/panic')
                special['panic'].permanent = True
            mark = len(inv)
            els = [osc.encode_message('/c18/keep', [i])
                   for i in range(op[1])]
            els.append(osc.encode_message('/c18/panic', []))
            els += [osc.encode_message('/c18/keep', [100 + i])
                    for i in range(op[2])]
            w.net.send(('127.0.0.1', 7009), ('127.0.0.1', LIB_PORT),
                       osc.encode_bundle(1, els), faults=False, delay=50e-6)
            settle()
            for r in list(reg.resp.values()):
                if not r.permanent and not r.freed:
                    reg.free(r.rid)
            got = [g['msg'] for g in inv[mark:]
                   if g['msg'][0].startswith('/c18/')]
            want = [['/c18/keep', i] for i in range(op[1])] \
                + [['/c18/panic']] \
                + [['/c18/keep', 100 + i] for i in range(op[2])]
            bump('op-cmdperiod-from-responder')
            if got != want:
                viol.add('C18-1', 'received-message-dropped-by-cmdperiod',
                         f'a bundle of {len(want)} messages, the '
                         f'{op[1] + 1}. of which makes a responder run '
                         f'CmdPeriod: the permanent responder of /c18/keep '
                         f'got {[m[1] for m in got if len(m) > 1]}, expected '
                         f'{[m[1] for m in want if len(m) > 1]}')
                break
        elif kind == 'cmdperiod':
            sac.CmdPeriod.run()
            for r in list(reg.resp.values()):
                if not r.permanent and not r.freed:
                    reg.free(r.rid)
            settle()
            bump('op-cmdperiod')
        elif kind == 'send':
            ok = do_send(op)
            if ok and op[4] is not None and op[4][0] != 'dup':
                ok = send_probe()
        elif kind == 'sa':
            _, cname, what, aid = op[:4]
            scope = op[4] if len(op) > 4 else 'all'
            cls = getattr(sac, cname)
            key = (cname, aid)
            skey = ssrv.Server.default if scope == 'srv' else scope
            if what == 'add':
                if key not in sa_funcs:
                    if cname == 'StartUp':
                        sa_funcs[key] = (lambda key=key:
                                         sa_calls.append(key))
                    else:
                        # one function may be registered for several scopes,
                        # each registration with its own arguments
                        sa_funcs[key] = (lambda server, tag='all', key=key:
                                         sa_calls.append(
                                             key if tag == 'all'
                                             else key + (tag,)))
                if cname == 'StartUp':
                    cls.add(sa_funcs[key])
                    sa_model[cname][key] = True
                else:
                    cls.add(skey, sa_funcs[key], scope)
                    sa_model[cname].setdefault(scope, {})[key] = True
                    if scope != 'all':
                        bump('server-action-scoped')
            elif what == 'remove':
                if key not in sa_funcs:
                    continue
                if cname == 'StartUp':
                    cls.remove(sa_funcs[key])
                    sa_model[cname].pop(key, None)
                else:
                    cls.remove(skey, sa_funcs[key])
                    sa_model[cname].get(scope, {}).pop(key, None)
            else:
                del sa_calls[:]
                if cname == 'StartUp':
                    cls.run()
                    want = list(sa_model[cname])
                else:
                    # the server's own actions, then 'default' (it is the
                    # default server), then 'all'; each in registration order
                    cls.run(ssrv.Server.default)
                    want = [kk + (sc,) for sc in ('srv', 'default')
                            for kk in sa_model[cname].get(sc, {})] + \
                        list(sa_model[cname].get('all', {}))
                bump('registry-runs')
                if sa_calls != want:
                    viol.add('C18-4', f'{cname}-actions',
                             f'{cname}.run() evaluated {sa_calls}, '
                             f'registered (in order) {want}')
                    ok = False
        elif kind == 'nc':
            _, what, oi, msg, li = op
            obj, lis = nc_objs[oi], nc_listeners[li]
            mkey = (oi, msg)
            if what == 'register':
                smdl.NotificationCenter.register(
                    obj, msg, lis,
                    lambda *a, li=li, mkey=mkey: nc_calls.append((mkey, li)))
                d = nc_model.setdefault(mkey, {})
                d[li] = True
            elif what == 'unregister':
                if li in nc_model.get(mkey, {}):
                    smdl.NotificationCenter.unregister(obj, msg, lis)
                    del nc_model[mkey][li]
            else:
                del nc_calls[:]
                smdl.NotificationCenter.notify(obj, msg)
                want = [(mkey, x) for x in nc_model.get(mkey, {})]
                bump('registry-runs')
                if nc_calls != want:
                    viol.add('C18-4', 'notification-center',
                             f'notify{mkey} ran {nc_calls}, registered '
                             f'{want}')
                    ok = False
        if not ok or viol:
            break
    return finalize('ok')
