"""C17 - client objects speak the server command protocol and keep ids
consistent.

RT world with a fake scsynth on the simulated network (and the NRT world for
the score): tape-generated histories of Synth / Group / ParGroup creation with
every add action and target kind, set / setn / map / fill / run / release /
move / free / trace / query, Buffer and Bus allocation, use and freeing
(single, consecutive, free_all, double free), inside and outside
`with s.bind():` blocks, from the main thread and from a routine, with
exceptions raised at arbitrary positions of a block (F9) and send errors (F6).
Oracles: command-reference grammar (fake server), id ledger, per-operation
expected commands (independent protocol model), bind-block atomicity."""

import struct

from sim import fakeserver as FS
from sim import osc
from sim import world
from . import common as C

ID = 'C17'
QUICK_RUNS = 1000
THOROUGH_SECONDS = 480
TICK = 2.0 ** -32

ACTIONS = ['addToHead', 'addToTail', 'addBefore', 'addAfter', 'addReplace',
           'head', 'tail', 'before', 'after', 'replace', 0, 1, 2, 3, 4]
ACTION_NUM = {'addToHead': 0, 'addToTail': 1, 'addBefore': 2, 'addAfter': 3,
              'addReplace': 4, 'head': 0, 'tail': 1, 'before': 2, 'after': 3,
              'replace': 4, 0: 0, 1: 1, 2: 2, 3: 3, 4: 4}
CTLS = ['freq', 'amp', 'pan', 0, 2]
NUMS = [0, 1, 440, 0.5, 0.25, -3, 2.75]

COMPONENTS = {
    'real': 'sc3 Synth/Group/ParGroup/Node, Buffer, AudioBus/ControlBus, '
            'Server allocators and bind(), BundleNetAddr, NetAddr, OSC '
            'interface and encoder',
    'stub': 'threading primitives, time, UDP network, scsynth (fake server '
            'validating against the command reference grammar)'}


# ------------------------------------------------------------ generation

def gen_args(tp, st):
    args = []
    for _ in range(tp.draw(4)):
        ctl = tp.choice(CTLS)
        k = tp.draw(8)
        if k < 5:
            val = tp.choice(NUMS)
        elif k == 5:
            val = [tp.choice(NUMS) for _ in range(1 + tp.draw(3))]
        elif k == 6 and st['cbus']:
            # the bus object itself, or its map symbol ('c3') as the value
            val = [tp.choice(['cbus', 'cbus', 'cmap']), tp.choice(st['cbus'])]
        elif k == 6 and st['abus']:
            val = ['amap', tp.choice(st['abus'])]
        elif k == 7 and st['buf']:
            val = ['buf', tp.choice(st['buf'])]
        else:
            val = tp.choice(NUMS)
        args.append([ctl, val])
    return args


def gen_completion(tp):
    """None, a literal completion message, or a function of the buffer."""
    return tp.choice([None, None, None, 'lit', 'fn', 'fn'])


def gen_op(tp, st, inner=False):
    r = tp.draw(100)
    nodes = st['synth'] + st['group']
    if r < 14:
        sid = st['n']
        st['n'] += 1
        st['synth'].append(sid)
        return ['synth', sid, tp.choice(['default', 'fm', 'test']),
                gen_args(tp, st), gen_target(tp, st, sid),
                tp.choice(ACTIONS), tp.draw(2) == 0]
    if r < 22:
        gid = st['n']
        st['n'] += 1
        st['group'].append(gid)
        return ['group', gid, gen_target(tp, st, gid), tp.choice(ACTIONS),
                tp.draw(3) == 0]
    if r < 50 and nodes:
        n = tp.choice(nodes)
        k = tp.draw(12)
        if k == 0:
            return ['nset', n, gen_args(tp, st), False]
        if k == 1:
            return ['nsetn', n, tp.choice(CTLS),
                    [tp.choice(NUMS) for _ in range(1 + tp.draw(3))]]
        if k == 2:
            return ['nfill', n, tp.choice(CTLS), 1 + tp.draw(4),
                    tp.choice(NUMS)]
        if k == 3 and st['cbus']:
            return ['nmap', n, tp.choice(CTLS), tp.choice(st['cbus'])]
        if k == 4:
            return ['nrun', n, bool(tp.draw(2))]
        if k == 5:
            return ['nrelease', n, tp.choice([None, 0, -1, 0.5, 2])]
        if k == 6 and len(nodes) > 1:
            t = tp.choice(nodes)
            if t != n:
                return ['nmove', n, tp.choice(['before', 'after']), t]
        if k == 7 and st['group']:
            g = tp.choice(st['group'] + [None])
            if g != n:
                return ['nmove', n, tp.choice(['head', 'tail']), g]
        if k == 8:
            return ['nfree', n]
        if k == 9:
            return ['ntrace', n]
        if k == 10:
            return ['nset', n, gen_args(tp, st), False]
        return ['nrun', n, True]
    if r < 60:
        bid = st['n']
        st['n'] += 1
        if tp.draw(4) == 0:
            cnt = 2 + tp.draw(3)
            for i in range(cnt):
                st['buf'].append(f'{bid}.{i}')
            return ['bufcons', bid, cnt, tp.choice([64, 1024]),
                    1 + tp.draw(2)]
        st['buf'].append(bid)
        return ['buf', bid, tp.choice([1, 64, 1024]), 1 + tp.draw(2),
                gen_completion(tp)]
    if r < 72 and st['buf']:
        b = tp.choice(st['buf'])
        k = tp.draw(6)
        if isinstance(b, str) and k >= 4 and not inner:
            # a group of consecutive buffers is freed as a group: every
            # member, one after the other, in some order
            bid = b.split('.')[0]
            members = [x for x in st['buf']
                       if isinstance(x, str) and x.split('.')[0] == bid]
            st['buf'] = [x for x in st['buf'] if x not in members]
            order = list(range(len(members)))
            for i in range(len(order) - 1, 0, -1):
                j = tp.draw(i + 1)
                order[i], order[j] = order[j], order[i]
            return ['bfreegroup', int(bid), order]
        if k == 0:
            return ['bzero', b, gen_completion(tp)]
        if k == 1:
            return ['bset', b, [[tp.draw(16), tp.choice(NUMS)]
                                for _ in range(1 + tp.draw(2))]]
        if k == 2:
            return ['bsetn', b, tp.draw(8),
                    [tp.choice(NUMS) for _ in range(1 + tp.draw(3))]]
        if k == 3:
            return ['bfill', b, tp.draw(8), 1 + tp.draw(8), tp.choice(NUMS)]
        if k == 4 and not inner and tp.draw(2):
            # a large list streamed by send_list in /b_setn chunks
            return ['bsendlist', b, tp.choice([100, 1626, 1627, 2048, 3252,
                                               4000]), tp.draw(3)]
        if k == 5 and tp.draw(2):
            # sound file and fill commands (the server is not there to do
            # them: only the command is looked at)
            j = tp.draw(7)
            if j == 0:
                return ['bfile', 'cue', b, tp.choice([0, 0, 100, 44100])]
            if j == 1:
                return ['bfile', 'read', b, tp.choice([0, 10]),
                        tp.choice([-1, 512]), tp.choice([0, 16]),
                        bool(tp.draw(2))]
            if j == 2:
                return ['bfile', 'write', b, tp.choice([-1, 256]),
                        tp.choice([0, 32]), bool(tp.draw(2))]
            if j == 3:
                if tp.draw(2):
                    # read_channel with its default channel list (none) or
                    # with some channels
                    return ['bfile', 'readch', b,
                            tp.choice([None, [0], [1, 0]])]
                return ['bfile', 'close', b]
            if j == 4 and len(st['buf']) > 1:
                return ['bfile', 'copy', b, tp.choice(st['buf']),
                        tp.choice([0, 8]), tp.choice([0, 4]),
                        tp.choice([-1, 64])]
            if j == 5:
                return ['bfile', 'normalize', b, tp.choice([1, 0.5]),
                        bool(tp.draw(2))]
            return ['bfile', 'sine1', b,
                    [tp.choice([1, 0.5, 0.25]) for _ in range(1 + tp.draw(3))],
                    bool(tp.draw(2)), bool(tp.draw(2)), bool(tp.draw(2))]
        if isinstance(b, str):
            # consecutive buffers are one allocation: the documentation
            # requires treating them as a group (only free_all)
            return ['bzero', b]
        return ['bfree', b, gen_completion(tp)]
    if r < 75 and not inner:
        # Buffer.free_all is a class-level clean-up: the Buffer objects are
        # stale afterwards (as in sclang) and are not used again
        st['buf'] = []
        return ['bfreeall']
    if r < 85:
        uid = st['n']
        st['n'] += 1
        kind = tp.choice(['abus', 'cbus', 'cbus'])
        st[kind].append(uid)
        return [kind, uid, 1 + tp.draw(4)]
    if r < 95 and st['cbus']:
        b = tp.choice(st['cbus'])
        k = tp.draw(4)
        if k == 0:
            return ['cset', b, [tp.choice(NUMS) for _ in range(1 + tp.draw(2))]]
        if k == 1:
            return ['csetn', b, [tp.choice(NUMS)
                                 for _ in range(1 + tp.draw(3))]]
        return ['busfree', 'cbus', b]
    if st['abus']:
        return ['busfree', 'abus', tp.choice(st['abus'])]
    return ['nop']


def gen_target(tp, st, self_id):
    nodes = [n for n in st['synth'] + st['group'] if n != self_id]
    k = tp.draw(6)
    if k == 5:
        # a plain integer node id: the root node, the default group, or the
        # id of one of our groups
        g = [x for x in st['group'] if x != self_id]
        if g and tp.draw(2):
            return ['idof', tp.choice(g)]
        return ['int', tp.choice([0, 0, 1])]
    if k < 2 or not nodes:
        return None
    if k == 2:
        return 'server'
    if k == 3 and st['group']:
        g = [x for x in st['group'] if x != self_id]
        if g:
            return ['obj', tp.choice(g)]
    return ['obj', tp.choice(nodes)]


def gen_xop(tp, xst):
    """An operation on a node of the second server (real-time mode only)."""
    r = tp.draw(10)
    if r < 3 or not xst['nodes']:
        uid = f'x{xst["n"]}'
        xst['n'] += 1
        xst['nodes'].append(uid)
        tgt = tp.choice(xst['groups']) if xst['groups'] and tp.draw(2) \
            else None
        if tp.draw(2):
            xst['groups'].append(uid)
            return ['x', 'group', uid, tgt]
        return ['x', 'synth', uid, tgt]
    n = tp.choice(xst['nodes'])
    if r < 6:
        tgt = tp.choice(xst['groups']) if xst['groups'] and tp.draw(2) \
            else None
        if tgt == n:
            tgt = None
        return ['x', 'move', n, tp.choice(['head', 'tail']), tgt]
    if r < 8:
        return ['x', 'set', n, tp.choice(NUMS)]
    if r < 9:
        return ['x', 'run', n]
    xst['nodes'].remove(n)
    if n in xst['groups']:
        xst['groups'].remove(n)
    return ['x', 'free', n]


def gen_case(tp, tier):
    big = tier == 'thorough'
    st = {'n': 0, 'synth': [], 'group': [], 'buf': [], 'abus': [], 'cbus': []}
    ops = []
    # swarm: one case in three also talks to a second, non-default server
    other = tp.draw(3) == 0
    xst = {'n': 0, 'nodes': [], 'groups': []}
    for _ in range(4 + tp.draw(36 if big else 20)):
        if tp.draw(6) == 0:
            inner = [gen_op(tp, st, True) for _ in range(1 + tp.draw(6))]
            raise_at = tp.draw(len(inner) + 1) if tp.draw(3) == 0 else None
            if tp.draw(4) == 0:
                # a block nested in the block, which may raise half way
                # (handled inside the outer block)
                sub = [gen_op(tp, st, True) for _ in range(1 + tp.draw(3))]
                inner.insert(tp.draw(len(inner) + 1),
                             ['bind', sub, tp.draw(len(sub) + 1)
                              if tp.draw(2) == 0 else None])
            if tp.draw(4) == 0:
                # `yield from s.sync()` in the middle of the block (only
                # meaningful from a routine in real time, else a plain block)
                inner = [x for x in inner if x[0] != 'bind']
                cut = tp.draw(len(inner) + 1)
                ops.append(['bindsync', inner[:cut], inner[cut:],
                            tp.draw(4) == 0])
            else:
                ops.append(['bind', inner, raise_at])
        elif tp.draw(16) == 0:
            # `yield from s.sync(latency=..., elements=[...])`: the elements
            # are sent (in real time together with the /sync) at that point
            ops.append(['syncel', tp.choice(st['synth'] + st['group'])
                        if st['synth'] + st['group'] else None,
                        tp.choice([None, 0.25])])
        elif other and tp.draw(5) == 0:
            ops.append(gen_xop(tp, xst))
        else:
            ops.append(gen_op(tp, st))
    knobs = C.gen_knobs(tp, fault_free_pm=300, max_steps=60000)
    knobs['f6_pm'] = tp.choice([0, 0, 0, 30])       # F6: send errors
    return {'knobs': knobs, 'ops': ops,
            'where': tp.choice(['main', 'main', 'routine']),
            'mode': tp.choice(['rt', 'rt', 'rt', 'nrt']),
            'client_id': tp.choice([0, 0, 1, 3])}


def shrink_candidates(case):
    import copy
    ops = case['ops']
    n = len(ops)
    step = max(1, n // 2)
    while step >= 1:
        for i in range(0, n, step):
            c = copy.deepcopy(case)
            del c['ops'][i:i + step]
            yield c
        step //= 2
    for i, op in enumerate(ops):
        if op[0] == 'bindsync':
            c = copy.deepcopy(case)
            c['ops'][i] = ['bind', op[1] + op[2], None]
            yield c
            for part in (1, 2):
                for j in range(len(op[part]) - 1, -1, -1):
                    c = copy.deepcopy(case)
                    del c['ops'][i][part][j]
                    yield c
        if op[0] == 'bind':
            for j in range(len(op[1]) - 1, -1, -1):
                c = copy.deepcopy(case)
                del c['ops'][i][1][j]
                if c['ops'][i][2] is not None:
                    c['ops'][i][2] = min(c['ops'][i][2], len(c['ops'][i][1]))
                yield c
            c = copy.deepcopy(case)
            c['ops'][i:i + 1] = op[1]
            yield c
    for key, val in (('where', 'main'), ('client_id', 0)):
        if case[key] != val:
            c = copy.deepcopy(case)
            c[key] = val
            yield c
    kn = case['knobs']
    for key, val in (('stall_pm', 0), ('cost', 0.0), ('lat', 0),
                     ('time_yield', False), ('policy', 'random')):
        if kn.get(key) != val:
            c = copy.deepcopy(case)
            c['knobs'][key] = val
            yield c


# -------------------------------------------------------------- execution

class Leaked(Exception):
    """harness: a violation was recorded inside a bind block"""


class Refused(Exception):
    """raised inside a bind block by the harness (F9)"""


def approx(a, b):
    if isinstance(a, list) and isinstance(b, list):
        return len(a) == len(b) and all(approx(x, y) for x, y in zip(a, b))
    if isinstance(a, bool) or isinstance(b, bool):
        return a == b
    if isinstance(a, (int, float)) and isinstance(b, (int, float)):
        return abs(a - b) <= 1e-6 * max(1.0, abs(a))
    return a == b and type(a) is type(b)


def run_case(case, tape, ctx):
    if case['mode'] == 'nrt':
        return run_world(case, tape, ctx, None)
    w = world.RtWorld(tape, case['knobs'], seed=1).boot()
    return run_world(case, tape, ctx, w)


def run_world(case, tape, ctx, w):
    import sc3.synth.server as ssrv
    import sc3.synth.node as snod
    import sc3.synth.buffer as sbuf
    import sc3.synth.bus as sbus
    import sc3.base.stream as sstm
    import sc3.base.clock as sclk
    viol = C.Violations()
    stats = {}
    rt = w is not None
    if rt:
        k = w.kernel
        main = w.main
        fake = FS.FakeServer(w.net)
    else:
        nw = world.NrtWorld(seed=1).boot()
        main = nw.main
        k = None
        fake = None
    s = ssrv.Server.default
    s.options.max_logins = 4
    s._status_watcher._max_logins = 4
    if case['client_id']:
        s._set_client_id(case['client_id'])
    cid = s.client_id
    latency = s.latency
    ADDR1 = ('127.0.0.1', 57110)
    ADDR2 = ('127.0.0.1', 57111)
    s2 = None
    xreal = {}
    if rt and any(op[0] == 'x' for op in case['ops']):
        import sc3.base.netaddr as snad
        s2 = ssrv.Server('other', snad.NetAddr(*ADDR2))
        FS.FakeServer(w.net, ADDR2)
    dest = [ADDR1]          # where the commands of the current op must go

    def bump(key, n=1):
        stats[key] = stats.get(key, 0) + n

    # ---- id ledger: everything the allocators hand out
    ledger = {'node': set(), 'buf': set(), 'cbus': set(), 'abus': set()}
    na = s._node_allocator
    orig_na = na.alloc

    def na_alloc():
        x = orig_na()
        ledger['node'].add(x)
        return x
    na.alloc = na_alloc
    for name, alloc in (('buf', s._buffer_allocator),
                        ('cbus', s._control_bus_allocator),
                        ('abus', s._audio_bus_allocator)):
        def wrap(alloc=alloc, name=name):
            orig = alloc.alloc

            def f(n=1):
                x = orig(n)
                if x is not None:
                    ledger[name].update(range(x, x + n))
                return x
            alloc.alloc = f
        wrap()
    default_groups = {g.node_id for g in s._default_groups}
    hw_buses = s.options.first_private_bus()

    real = {}
    model = {}         # key -> dict(kind, id/index, live, n)

    def target_of(t):
        if t is None:
            return None, s.default_group.node_id
        if t == 'server':
            return s, s.default_group.node_id
        if t[0] == 'int':
            # (1 is the default group of client 0 only: map it to ours)
            v = t[1] if t[1] == 0 else s.default_group.node_id
            return v, v
        if t[0] == 'idof':
            obj = real.get(t[1])
            if obj is None:
                return None, s.default_group.node_id
            return obj.node_id, obj.node_id
        obj = real.get(t[1])
        if obj is None:
            return None, s.default_group.node_id
        return obj, obj.node_id

    def conv_val(v):
        """DSL value -> (python value for sc3, expected wire value)"""
        if isinstance(v, list) and v and v[0] == 'cbus':
            b = real.get(v[1])
            if b is None or b._index is None:
                return 0, 0
            return b, b._index
        if isinstance(v, list) and v and v[0] in ('cmap', 'amap'):
            b = real.get(v[1])
            if b is None:
                return 0, 0
            live = model[v[1]]['live']
            try:
                sym = b.as_map()
            except sbus.BusException:
                if live:
                    viol.add('C17-3', 'bus-as-map-refused',
                             'as_map() of an allocated bus raised')
                bump('F10-freed-bus-as-map-refused')
                return 0, 0
            if not live:
                viol.add('C17-2', 'freed-bus-named',
                         f'as_map() of a freed bus returned {sym!r}: the '
                         f'command would name a bus id the client has '
                         f'returned to the allocator')
                return 0, 0
            bump('bus-map-symbol')
            return sym, v[0][0] + str(model[v[1]]['id'])
        if isinstance(v, list) and v and v[0] == 'buf':
            b = real.get(v[1])
            if b is None or b._bufnum is None:
                return 0, 0
            return b, b._bufnum
        if isinstance(v, list):
            return list(v), list(v)
        return v, v

    def conv_args(args, as_dict=False):
        py, wire = [], []
        for ctl, v in args:
            a, b = conv_val(v)
            py += [ctl, a]
            wire += [ctl, b]
        if as_dict:
            d = {}
            wire = []
            for i in range(0, len(py), 2):
                d[py[i]] = py[i + 1]
            for kk, vv in d.items():
                a, b = conv_val(vv) if not hasattr(vv, '_index') and not \
                    hasattr(vv, '_bufnum') else (vv, getattr(
                        vv, '_index', getattr(vv, '_bufnum', None)))
                wire += [kk, b]
            return d, wire
        return py, wire

    # ---- one operation: performs it on the real objects and returns the
    # list of commands the model expects on the wire:
    # ('m', [addr, args...]) or ('b', latency, [[addr, args...], ...])

    def completion(ckind):
        """-> (argument for the library call, bufnum -> expected value on the
        wire).  A completion message travels as a blob holding the encoded
        message (RT) / stays a nested list in the score (NRT); the function
        form is evaluated with the buffer object while it still is the buffer
        the command is about."""
        if ckind is None:
            return None, lambda num: 0
        bump('completion-' + ckind)
        if ckind == 'lit':
            msg = ['/sync', 4242]
            arg = list(msg)

            def wire(num):
                return osc.encode_message(msg[0], msg[1:]) if rt else msg
        else:
            def arg(buf):
                return ['/b_query', buf.bufnum]

            def wire(num):
                m = ['/b_query', num]
                return osc.encode_message(m[0], m[1:]) if rt else m
        return arg, wire
    def perform_x(op):
        """Operations on nodes of the second server: same commands, other
        wire."""
        sub = op[1]
        bump('other-server-ops')
        if sub in ('group', 'synth'):
            _, _, uid, tgt = op
            tobj = xreal.get(tgt) if tgt is not None else s2
            if tobj is None:
                tobj = s2
            tid = tobj.node_id if tobj is not s2 else \
                s2.default_group.node_id
            if sub == 'group':
                n = snod.Group(tobj)
                exp = ['/g_new', n.node_id, 0, tid]
            else:
                n = snod.Synth('default', None, tobj)
                exp = ['/s_new', 'default', n.node_id, 0, tid]
            xreal[uid] = n
            return [('m', exp)]
        n = xreal.get(op[2])
        if n is None:
            return []
        nid = n.node_id
        if sub == 'move':
            how, tgt = op[3], op[4]
            tg = xreal.get(tgt) if tgt is not None else None
            if tg is None:
                getattr(n, 'move_to_' + how)()
                gid = s2.default_group.node_id
            else:
                getattr(n, 'move_to_' + how)(tg)
                gid = tg.node_id
            return [('m', ['/g_' + how, gid, nid])]
        if sub == 'set':
            n.set('amp', op[3])
            return [('m', ['/n_set', nid, 'amp', op[3]])]
        if sub == 'run':
            n.run(False)
            return [('m', ['/n_run', nid, 0])]
        if sub == 'free':
            n.free()
            del xreal[op[2]]
            return [('m', ['/n_free', nid])]
        raise ValueError(op)

    def perform(op):
        kind = op[0]
        dest[0] = ADDR1
        if kind == 'nop':
            return []
        if kind == 'x':
            if s2 is None:
                return []
            dest[0] = ADDR2
            return perform_x(op)
        if kind == 'synth':
            _, sid, dname, args, tgt, action, as_list = op
            tobj, tid = target_of(tgt)
            # (a dict with list values is refused by the library with
            # ValueError: no command is emitted, nothing for C17 to judge)
            use_dict = not as_list and not any(
                isinstance(v, list) and (not v or v[0] not in ('cbus', 'buf', 'cmap', 'amap'))
                for _, v in args)
            py, wire = conv_args(args, use_dict)
            syn = snod.Synth(dname, py if py else None, tobj, action)
            real[sid] = syn
            model[sid] = {'kind': 'synth', 'id': syn.node_id, 'live': True}
            bump('synth-created')
            return [('m', ['/s_new', dname, syn.node_id, ACTION_NUM[action],
                           tid] + wire)]
        if kind == 'group':
            _, gid, tgt, action, par = op
            tobj, tid = target_of(tgt)
            cls = snod.ParGroup if par else snod.Group
            g = cls(tobj, action)
            real[gid] = g
            model[gid] = {'kind': 'group', 'id': g.node_id, 'live': True}
            bump('group-created')
            return [('m', ['/p_new' if par else '/g_new', g.node_id,
                           ACTION_NUM[action], tid])]
        if kind in ('nset', 'nsetn', 'nfill', 'nmap', 'nrun', 'nrelease',
                    'nmove', 'nfree', 'ntrace'):
            n = real.get(op[1])
            if n is None:
                return []
            nid = n.node_id
            if kind == 'nset':
                py, wire = conv_args(op[2], op[3])
                if op[3]:
                    n.set(py)
                else:
                    n.set(*py)
                return [('m', ['/n_set', nid] + wire)]
            if kind == 'nsetn':
                n.setn(op[2], list(op[3]))
                return [('m', ['/n_setn', nid, op[2], len(op[3])] +
                         list(op[3]))]
            if kind == 'nfill':
                n.fill(op[2], op[3], op[4])
                return [('m', ['/n_fill', nid, op[2], op[3], op[4]])]
            if kind == 'nmap':
                b = real.get(op[3])
                if b is None or b._index is None:
                    return []
                n.map(op[2], b)
                return [('m', ['/n_map', nid, op[2], b._index])]
            if kind == 'nrun':
                n.run(op[2])
                return [('m', ['/n_run', nid, int(op[2])])]
            if kind == 'nrelease':
                t = op[2]
                n.release(t)
                g = 0 if t is None else (-1 if t <= 0 else -(t + 1))
                return [('b', latency, [['/n_set', nid, 'gate', g]])]
            if kind == 'nmove':
                how, t = op[2], op[3]
                if how in ('before', 'after'):
                    tn = real.get(t)
                    if tn is None:
                        return []
                    getattr(n, 'move_' + how)(tn)
                    return [('m', ['/n_' + how, nid, tn.node_id])]
                tg = real.get(t) if t is not None else None
                if t is not None and (tg is None or model[t]['kind'] !=
                                      'group'):
                    return []
                getattr(n, 'move_to_' + how)(tg)
                gid = tg.node_id if tg is not None else \
                    s.default_group.node_id
                return [('m', ['/g_' + how, gid, nid])]
            if kind == 'nfree':
                n.free()
                model[op[1]]['live'] = False
                bump('node-freed')
                return [('m', ['/n_free', nid])]
            if kind == 'ntrace':
                n.trace()
                return [('m', ['/n_trace', nid])]
        if kind == 'buf':
            _, bid, frames, ch = op[:4]
            arg, wire = completion(op[4] if len(op) > 4 else None)
            b = sbuf.Buffer(frames, ch, s, completion_msg=arg)
            real[bid] = b
            model[bid] = {'kind': 'buf', 'id': b.bufnum, 'live': True,
                          'frames': frames}
            bump('buffer-created')
            return [('m', ['/b_alloc', b.bufnum, frames, ch,
                           wire(b.bufnum)])]
        if kind == 'bufcons':
            _, bid, cnt, frames, ch = op
            # (the documented default for the server argument is the
            # default server)
            bs = sbuf.Buffer.new_consecutive(
                cnt, frames, ch, None if s is ssrv.Server.default
                and bid % 2 else s)
            exp = []
            base = bs[0].bufnum
            for i, b in enumerate(bs):
                real[f'{bid}.{i}'] = b
                model[f'{bid}.{i}'] = {'kind': 'buf', 'id': b.bufnum,
                                       'live': True, 'frames': frames}
                if b.bufnum != base + i:
                    viol.add('C17-3', 'consecutive-buffers-not-consecutive',
                             f'new_consecutive({cnt}) gave buffer numbers '
                             f'{[x.bufnum for x in bs]}')
                exp.append(('m', ['/b_alloc', b.bufnum, frames, ch, 0]))
            bump('consecutive-buffers')
            return exp
        if kind == 'bfile':
            sub = op[1]
            b = real.get(op[2])
            if b is None:
                return []
            path = '/tmp/verif-sound.aiff'
            if not model[op[2]]['live']:
                # a freed buffer owns no number any more: using it is
                # refused, nothing is sent (least of all for buffer 0)
                if b.bufnum is not None:
                    return []       # (stale object after free_all)
                d = real.get(op[3]) if sub == 'copy' else None
                if sub == 'copy' and (d is None or d.bufnum is None):
                    return []
                calls = {
                    'cue': lambda: b.cue(path, 0),
                    'read': lambda: b.read(path),
                    'write': lambda: b.write(path),
                    'close': lambda: b.close(),
                    'readch': lambda: b.read_channel(path),
                    'copy': lambda: b.copy_data(d),
                    'normalize': lambda: b.normalize(),
                    'sine1': lambda: b.sine1([1])}
                try:
                    calls[sub]()
                    viol.add('C17-3', 'freed-buffer-used',
                             f'{sub} on a freed buffer did not raise')
                except sbuf.BufferException:
                    pass
                bump('F10-freed-buffer-' + sub)
                return []
            num = model[op[2]]['id']
            bump('buffer-' + sub)
            if sub == 'cue':
                # Server Command Reference: /b_read bufnum path fileStart
                # numFrames bufStart leaveOpen completion; cueing fills the
                # whole buffer from its start and leaves the file open
                # (the number of frames as the client knows it now: a late
                # /b_info for an earlier buffer of the same number may have
                # rewritten it since the buffer was made)
                frames_now = b.frames
                b.cue(path, op[3])
                return [('m', ['/b_read', num, path, op[3], frames_now, 0, 1,
                               0])]
            if sub == 'read':
                b.read(path, op[3], op[4], op[5], op[6])
                q = ['/b_query', num]
                return [('m', ['/b_read', num, path, op[3], op[4], op[5],
                               int(op[6]),
                               osc.encode_message(q[0], q[1:]) if rt else q])]
            if sub == 'write':
                b.write(path, 'aiff', 'int24', op[3], op[4], op[5])
                return [('m', ['/b_write', num, path, 'aiff', 'int24', op[3],
                               op[4], int(op[5]), 0])]
            if sub == 'close':
                b.close()
                return [('m', ['/b_close', num, 0])]
            if sub == 'readch':
                # /b_readChannel bufnum path fileStart numFrames bufStart
                # leaveOpen [channel ...] completion
                if op[3] is None:
                    b.read_channel(path)
                else:
                    b.read_channel(path, channels=list(op[3]))
                q = ['/b_query', num]
                return [('m', ['/b_readChannel', num, path, 0, -1, 0, 0]
                         + list(op[3] or [])
                         + [osc.encode_message(q[0], q[1:]) if rt else q])]
            if sub == 'copy':
                d = real.get(op[3])
                if d is None or not model[op[3]]['live']:
                    return []
                b.copy_data(d, op[4], op[5], op[6])
                return [('m', ['/b_gen', model[op[3]]['id'], 'copy', op[4],
                               num, op[5], op[6]])]
            if sub == 'normalize':
                b.normalize(op[3], op[4])
                return [('m', ['/b_gen', num,
                               'wnormalize' if op[4] else 'normalize',
                               op[3]])]
            if sub == 'sine1':
                b.sine1(list(op[3]), op[4], op[5], op[6])
                flags = int(op[4]) + 2 * int(op[5]) + 4 * int(op[6])
                return [('m', ['/b_gen', num, 'sine1', flags] + list(op[3]))]
            return []
        if kind == 'bfreegroup':
            out = []
            for i in op[2]:
                if f'{op[1]}.{i}' in real:
                    out.extend(perform(['bfree', f'{op[1]}.{i}', None]))
            bump('consecutive-buffers-freed-as-a-group')
            return out
        if kind in ('bzero', 'bset', 'bsetn', 'bfill', 'bfree'):
            b = real.get(op[1])
            if b is None:
                return []
            num = b.bufnum
            if num is None and kind != 'bfree':
                try:
                    getattr(b, {'bzero': 'zero', 'bset': 'set',
                                'bsetn': 'setn', 'bfill': 'fill'}[kind])(
                        *([] if kind == 'bzero' else [0, 0] if kind != 'bfill'
                          else [0, 1, [0]]))
                    viol.add('C17-3', 'freed-buffer-used',
                             f'{kind} on a freed buffer did not raise')
                except sbuf.BufferException:
                    pass
                return []
            if kind == 'bzero':
                arg, wire = completion(op[2] if len(op) > 2 else None)
                b.zero(arg)
                return [('m', ['/b_zero', num, wire(num)])]
            if kind == 'bset':
                flat = [x for p in op[2] for x in p]
                b.set(*flat)
                return [('m', ['/b_set', num] + flat)]
            if kind == 'bsetn':
                b.setn(op[2], list(op[3]))
                return [('m', ['/b_setn', num, op[2], len(op[3])] +
                         list(op[3]))]
            if kind == 'bfill':
                b.fill(op[2], op[3], [op[4]])
                return [('m', ['/b_fill', num, op[2], op[3], op[4]])]
            if kind == 'bfree':
                was_live = model[op[1]]['live']
                arg, wire = completion(op[2] if len(op) > 2 else None)
                b.free(arg)
                model[op[1]]['live'] = False
                if was_live:
                    bump('buffer-freed')
                    free_later.append(('buf', num))
                    return [('m', ['/b_free', num, wire(num)])]
                bump('F10-buffer-double-free')
                return []          # a second free owns nothing any more
        if kind == 'bsendlist':
            b = real.get(op[1])
            if b is None or b.bufnum is None or not rt \
                    or case['where'] != 'main' or main.current_tt is not \
                    main.main_tt or case['knobs'].get('f6_pm'):
                # (the stream is sent by a routine on SystemClock: with send
                # errors injected there it legitimately stops half way)
                return []
            n, start = op[2], op[3]
            data = [float((i * 7) % 13 - 6) for i in range(n)]
            mark = mark_now()
            pos = 0
            want = []
            while pos < n:
                chunk = data[pos:pos + 1626]
                want.append(['/b_setn', b.bufnum, start * b.channels + pos,
                             len(chunk)] + chunk)
                pos += 1626
            b.send_list(data, start, wait=0)
            # the streaming routine runs on SystemClock (which may be late)
            for _ in range(400):
                k.sleep(0.05)
                got = [g for g in wire_since(mark, any_thread=True)
                       if g[0] == 'm' and g[1][0] == '/b_setn'
                       and g[1][1] == b.bufnum]
                if len(got) >= len(want):
                    k.sleep(0.05)
                    break
            got = [g for g in wire_since(mark, any_thread=True)
                   if g[0] == 'm' and g[1][0] == '/b_setn'
                   and g[1][1] == b.bufnum]
            bump('send-list')
            if [g[1] for g in got] != want:
                def head(m):
                    return m[:4] + [f'... {len(m) - 4} value(s)']
                viol.add('C17-3', 'command-bsendlist',
                         f'{op}: send_list of {n} samples put '
                         f'{[head(g[1]) for g in got]} on the wire, expected '
                         f'{[head(m) for m in want]}')
            dest[0] = 'drop'       # already compared: nothing more to match
            return []
        if kind == 'bfreeall':
            live = sorted(m['id'] for m in model.values()
                          if m['kind'] == 'buf' and m['live'])
            sbuf.Buffer.free_all(s)
            for m in model.values():
                if m['kind'] == 'buf':
                    m['live'] = False
            bump('free-all')
            for num in live:
                free_later.append(('buf', num))
            return [('b', None, [['/b_free', num] for num in live])]
        if kind in ('abus', 'cbus'):
            _, uid, ch = op
            cls = sbus.AudioBus if kind == 'abus' else sbus.ControlBus
            b = cls(ch, s)
            real[uid] = b
            model[uid] = {'kind': kind, 'id': b._index, 'n': ch,
                          'live': True}
            bump('bus-created')
            return []
        if kind in ('cset', 'csetn'):
            b = real.get(op[1])
            if b is None:
                return []
            idx = b._index
            if idx is None:
                try:
                    if kind == 'cset':
                        b.set(*op[2])
                    else:
                        b.setn(list(op[2]))
                    viol.add('C17-3', 'freed-bus-used',
                             f'{kind} on a freed bus did not raise')
                except sbus.BusException:
                    pass
                return []
            if kind == 'cset':
                b.set(*op[2])
                flat = []
                for i, v in enumerate(op[2]):
                    flat += [idx + i, v]
                return [('m', ['/c_set'] + flat)]
            b.setn(list(op[2]))
            return [('m', ['/c_setn', idx, len(op[2])] + list(op[2]))]
        if kind == 'busfree':
            b = real.get(op[2])
            if b is None:
                return []
            m = model[op[2]]
            if m['live']:
                free_later.append((op[1], m['id'], m['n']))
                bump('bus-freed')
            else:
                bump('F10-bus-double-free')
            b.free()
            m['live'] = False
            return []
        raise ValueError(op)

    free_later = []
    io_failed = []

    # ---- wire observation
    def wire_since(mark, any_thread=False):
        """-> list of ('m', list) / ('b', timetag, [list...]) captured from
        this thread since `mark`"""
        out = []
        if rt and dest[0] == 'drop':
            return out
        if rt:
            me = k.current.idx
            for now, src, dst, data, idx in w.net.captured[mark:]:
                if any_thread:
                    if dst != ADDR1:
                        continue
                    idx = me
                if idx == me and dst in (ADDR1, ADDR2) and dst != dest[0]:
                    viol.add('C17-1', 'command-to-another-server',
                             f'a command for the server at {dest[0]} went to '
                             f'{dst}: {osc.try_decode(data)[0]!r}')
                    continue
                if idx != me or dst != dest[0]:
                    continue
                pkt, err = osc.try_decode(data)
                if err:
                    viol.add('C17-1', 'undecodable-datagram', err)
                    continue
                if isinstance(pkt, osc.Msg):
                    out.append(('m', pkt.aslist(), pkt))
                else:
                    out.append(('b', pkt.timetag,
                                [e.aslist() if isinstance(e, osc.Msg)
                                 else repr(e) for e in pkt.elements], pkt))
        else:
            q = main._osc_interface._osc_score._scoreq
            entries = [e[2].bndl for e in sorted(
                (x for x in q._queue if x[2] is not q._REMOVED),
                key=lambda x: x[1])][mark:]
            for b in entries:
                out.append(('nb', b[0], [conv_brackets(x) for x in b[1:]],
                            None))
        return out

    def mark_now():
        if rt:
            return len(w.net.captured)
        q = main._osc_interface._osc_score._scoreq
        return sum(1 for x in q._queue if x[2] is not q._REMOVED)

    def conv_brackets(lst):
        """sc3 list form with '[' ']' markers -> nested lists"""
        out = []
        stack = [out]
        for x in lst:
            if x == '[':
                new = []
                stack[-1].append(new)
                stack.append(new)
            elif x == ']':
                stack.pop()
            elif x is None:
                stack[-1].append(0)        # what the encoder sends for None
            elif isinstance(x, bool):
                stack[-1].append(int(x))
            else:
                stack[-1].append(x)
        return out

    def compare(op, exp, got, t_logical, in_bind=False):
        """exp: list from perform(); got: list from wire_since()"""
        # normalise: in NRT every message is a bundle at the current time
        if not rt:
            flat_exp = []
            for e in exp:
                if e[0] == 'm':
                    flat_exp.append(('nb', 0.0, [e[1]]))
                else:
                    flat_exp.append(('nb', e[1] or 0.0, e[2]))
            exp = flat_exp
        if len(exp) != len(got):
            viol.add('C17-3', f'command-count-{op[0]}',
                     f'{op}: expected {len(exp)} packet(s) '
                     f'{[e[1:] for e in exp]}, wire has '
                     f'{[g[1:3] for g in got]}')
            return False
        for e, g in zip(exp, got):
            if e[0] == 'm':
                if g[0] != 'm' or not approx(g[1], e[1]):
                    viol.add('C17-3', f'command-{op[0]}',
                             f'{op}: expected {e[1]}, wire has {g[1:3]}')
                    return False
            elif e[0] == 'b':
                if g[0] != 'b' or not approx(g[2], e[2]):
                    viol.add('C17-3', f'bundle-{op[0]}',
                             f'{op}: expected bundle {e[2]}, wire has '
                             f'{g[1:3]}')
                    return False
                check_tag(op, e[1], g[1], t_logical)
            else:
                if not approx(g[2], e[2]):
                    viol.add('C17-3', f'score-{op[0]}',
                             f'{op}: expected score entry {e[2]}, got '
                             f'{g[2]}')
                    return False
        return True

    def check_tag(op, lat, tag, t_logical):
        if not rt:
            return
        if lat is None:
            if tag != 1:
                viol.add('C17-4', 'bundle-not-immediate',
                         f'{op}: timetag {tag}, expected immediately')
            return
        offset = sclk.SystemClock._elapsed_osc_offset
        got = (tag - offset) * TICK - lat
        if t_logical is not None:
            if abs(got - t_logical) > 1e-6:
                viol.add('C17-4', 'bundle-time-in-routine',
                         f'{op}: bundle stamped {got} + latency, logical '
                         f'time is {t_logical}')
        else:
            lo, hi = t_logical_window
            if not (lo - 1e-6 <= got <= hi + 1e-6):
                viol.add('C17-4', 'bundle-time-main',
                         f'{op}: bundle stamped {got} + latency, call ran '
                         f'between {lo} and {hi}')

    t_logical_window = [0.0, 0.0]

    def elapsed():
        if rt:
            return (k.epoch + k.now) - main._init_time
        return main.elapsed_time()

    def do_ops(ops, t_logical):
        for op in ops:
            if viol or io_failed:
                return
            if op[0] == 'bind':
                do_bind(op, t_logical)
                continue
            if op[0] == 'bindsync':
                do_bind(['bind', op[1] + op[2], None], t_logical)
                continue
            if op[0] == 'syncel':
                continue        # (a generator call: only from the routine)
            mark = mark_now()
            t_logical_window[0] = elapsed()
            try:
                exp = perform(op)
            except OSError:
                # F6: the operation failed half way, the per-operation model
                # is out of step from here on: stop issuing operations and
                # keep only the checks on what reached the wire
                bump('F6-send-error')
                io_failed.append(op)
                return
            t_logical_window[1] = elapsed()
            got = wire_since(mark)
            compare(op, exp, got, t_logical)
            dest[0] = ADDR1
            bump('ops')

    def flat_msgs(exp):
        els = []
        for e in exp:
            if e[0] == 'm':
                els.append(e[1])
            else:
                els.extend(e[2])
        return els

    def do_ops_gen(ops, t_logical):
        """generator form for the routine: handles `bindsync`, everything
        else goes through do_ops"""
        for op in ops:
            if viol or io_failed:
                return
            if op[0] == 'syncel':
                yield from do_syncel(op)
            elif op[0] == 'bindsync' and rt:
                yield from do_bindsync(op)
            elif op[0] == 'bindsync':
                do_ops([['bind', op[1] + op[2], None]],
                       main.current_tt._seconds)
            else:
                do_ops([op], main.current_tt._seconds)

    def do_syncel(op):
        _, nref, lat = op
        n = real.get(nref) if nref is not None else None
        if n is not None and model[nref]['live'] and n.node_id is not None:
            els = [['/n_run', n.node_id, 1]]
        else:
            els = [['/status']]
        mark = mark_now()
        t = main.current_tt._seconds
        try:
            yield from s.sync(None, lat, [list(m) for m in els])
        except OSError:
            bump('F6-send-error')
            io_failed.append(op)
            return
        got = wire_since(mark)
        bump('sync-with-elements')
        if rt:
            # one bundle: the elements, then the /sync with its id
            if len(got) != 1 or got[0][0] != 'b' or not got[0][2] \
                    or got[0][2][-1][0] != '/sync':
                viol.add('C17-3', 'sync-elements',
                         f'sync(latency={lat}, elements={els}): wire has '
                         f'{[g[1:3] for g in got]}')
                return
            compare(op, [('b', lat, els + [got[0][2][-1]])], got, t)
        else:
            compare(op, [('b', lat, els)], got, t)

    def do_bindsync(op):
        _, before, after, raise_after = op
        addr0 = s.addr
        mark = mark_now()
        try:
            with s.bind():
                t1 = main.current_tt._seconds
                exp_a = []
                for iop in before:
                    exp_a.extend(perform(iop))
                if wire_since(mark):
                    viol.add('C17-4', 'bind-leaks-before-exit',
                             'a command inside a bind block reached the wire '
                             'before sync()')
                    return
                yield from s.sync()
                got = wire_since(mark)
                els = flat_msgs(exp_a)
                want = ([('b', latency, els)] if els else [])
                if len(got) != len(want) + 1 or got[-1][0] != 'b' \
                        or len(got[-1][2]) != 1 \
                        or got[-1][2][0][0] != '/sync' \
                        or not isinstance(got[-1][2][0][1], int):
                    viol.add('C17-4', 'bind-sync-split',
                             f'sync() inside a bind block after {len(els)} '
                             f'command(s): wire has {[g[1:3] for g in got]}')
                    return
                if want:
                    compare(['bindsync', 'first part'], want, got[:-1], t1)
                bump('bind-sync')
                mark2 = mark_now()
                t2 = main.current_tt._seconds
                exp_b = []
                for iop in after:
                    exp_b.extend(perform(iop))
                if wire_since(mark2):
                    viol.add('C17-4', 'bind-leaks-before-exit',
                             'a command after sync() reached the wire before '
                             'the block ended')
                    return
                if raise_after:
                    raise Refused()
        except Refused:
            bump('F9-bind-raised')
            if wire_since(mark2):
                viol.add('C17-4', 'bind-sent-after-exception',
                         'a bind block that raised after its sync() still '
                         'sent the commands issued after the sync')
            if s.addr is not addr0:
                viol.add('C17-4', 'bind-address-not-restored',
                         'server.addr is still the collecting proxy after '
                         'the block raised')
            return
        except OSError:
            bump('F6-send-error')
            io_failed.append(op)
            return
        if s.addr is not addr0:
            viol.add('C17-4', 'bind-address-not-restored',
                     'server.addr is still the collecting proxy after the '
                     'block')
        els = flat_msgs(exp_b)
        got = wire_since(mark2)
        if not els:
            if got:
                viol.add('C17-4', 'bind-empty-sent',
                         f'nothing was issued after sync() but the block '
                         f'sent {got[0][1:3]}')
            return
        compare(['bindsync', 'second part'], [('b', latency, els)], got, t2,
                True)

    def do_bind(op, t_logical):
        _, inner, raise_at = op
        mark = mark_now()
        addr0 = s.addr
        exp = []
        t_logical_window[0] = elapsed()
        def block(inner, raise_at):
            """the body of an open block -> what it adds to the bundle"""
            out = []
            for j, iop in enumerate(inner):
                if raise_at is not None and j == raise_at:
                    raise Refused()
                if iop[0] == 'bind':
                    # a block inside the block: its commands join the outer
                    # bundle in issue order when it ends; when it raises and
                    # the outer block handles that, they are not sent at all
                    addr_in = s.addr
                    try:
                        with s.bind():
                            sub = block(iop[1], iop[2])
                        out.extend(sub)
                        bump('bind-nested')
                    except Refused:
                        bump('F9-nested-bind-raised')
                    if s.addr is not addr_in:
                        viol.add('C17-4', 'bind-address-not-restored',
                                 'after a nested bind block server.addr is '
                                 'not the enclosing block\'s proxy')
                        raise Leaked()
                else:
                    out.extend(perform(iop))
                inside = wire_since(mark)
                if inside:
                    viol.add('C17-4', 'bind-leaks-before-exit',
                             f'{iop} inside a bind block reached the '
                             f'wire before the block ended: '
                             f'{inside[0][1:3]}')
                    raise Leaked()
            if raise_at is not None and raise_at >= len(inner):
                raise Refused()
            return out

        try:
            with s.bind():
                exp.extend(block(inner, raise_at))
        except Leaked:
            return
        except Refused:
            bump('F9-bind-raised')
            got = wire_since(mark)
            if got:
                viol.add('C17-4', 'bind-sent-after-exception',
                         f'a bind block that raised after {raise_at} '
                         f'operation(s) still sent {got[0][1:3]}')
            if s.addr is not addr0:
                viol.add('C17-4', 'bind-address-not-restored',
                         'server.addr is still the collecting proxy after '
                         'the block raised')
            return
        except OSError:
            bump('F6-send-error')
            io_failed.append(op)
            if s.addr is not addr0:
                viol.add('C17-4', 'bind-address-not-restored',
                         'server.addr is still the collecting proxy after a '
                         'send error at the end of the block')
            return
        t_logical_window[1] = elapsed()
        if s.addr is not addr0:
            viol.add('C17-4', 'bind-address-not-restored',
                     'server.addr is still the collecting proxy after the '
                     'block')
        els = []
        for e in exp:
            if e[0] == 'm':
                els.append(e[1])
            else:
                els.extend(e[2])
        got = wire_since(mark)
        bump('bind-blocks')
        if not els:
            if got:
                viol.add('C17-4', 'bind-empty-sent',
                         f'an empty bind block sent {got[0][1:3]}')
            return
        compare(op[:1] + ['...'], [('b', latency, els)], got, t_logical,
                True)

    done = [False]

    def finalize(outcome):
        if done[0]:
            return None
        done[0] = True
        if rt:
            k.freeze()
        end_checks()
        if rt:
            return C.result(k, viol, outcome, k.contended > 0
                            and stats.get('ops', 0) > 0,
                            sample={'ops': case['ops'][:6],
                                    'where': case['where']},
                            extra_probes=stats,
                            features=[case['where'], 'rt'])
        import hashlib
        h = hashlib.sha1(repr(case['ops']).encode()).hexdigest()
        return {'violations': viol.items, 'probes': stats, 'faults': {},
                'outcome': 'ok', 'steps': 0, 'vtime': 0.0, 'sig': h[:16],
                'digest': h, 'nontrivial': stats.get('ops', 0) > 2,
                'sample': {'ops': case['ops'][:6]}, 'features': ['nrt']}

    def end_checks():
        # 1. grammar: everything the fake server received
        if rt:
            for now, why, what in fake.malformed[:3]:
                viol.add('C17-1', 'command-grammar-' + why.split(':')[0][:40],
                         f'the server received a non-conforming command: '
                         f'{why} {what}')
            stats['server-messages'] = len(fake.messages)
            msgs = [m for _, _, m in fake.messages]
        else:
            msgs = []
            for b in main._osc_interface._osc_score._lst_score or []:
                pass
        # 2. id ledger
        for m in msgs:
            a = m.addr
            args = m.args
            ids = []
            if a == '/s_new':
                ids = [('node', args[1]), ('node', args[3])]
            elif a in ('/g_new', '/p_new'):
                ids = [('node', args[0]), ('node', args[2])]
            elif a.startswith('/n_') and args:
                ids = [('node', args[0])]
                if a in ('/n_before', '/n_after'):
                    ids.append(('node', args[1]))
            elif a in ('/g_head', '/g_tail'):
                ids = [('node', args[0]), ('node', args[1])]
            elif a.startswith('/b_') and args:
                ids = [('buf', args[0])]
            for kind, v in ids:
                if kind == 'node':
                    if v in ledger['node'] or v in default_groups or v == 0:
                        continue
                    viol.add('C17-2', f'unallocated-node-id-{a}',
                             f'{m.aslist()} mentions node id {v}, never '
                             f'handed out by the allocator (client {cid})')
                elif kind == 'buf':
                    if v in ledger['buf']:
                        continue
                    viol.add('C17-2', f'unallocated-buffer-{a}',
                             f'{m.aslist()} mentions buffer {v}, never '
                             f'handed out by the allocator (client {cid})')
        # 3. freed ids are allocatable again
        for item in ([] if io_failed else free_later):
            if item[0] == 'buf':
                used = {x for b in s._buffer_allocator.blocks()
                        for x in range(b.start, b.start + b.size)}
                live = {m['id'] for m in model.values()
                        if m['kind'] == 'buf' and m['live']}
                if item[1] in used and item[1] not in live:
                    viol.add('C17-3', 'buffer-number-not-returned',
                             f'buffer {item[1]} was freed but the allocator '
                             f'still holds it')
            else:
                alloc = s._control_bus_allocator if item[0] == 'cbus' \
                    else s._audio_bus_allocator
                used = {x for b in alloc.blocks()
                        for x in range(b.start, b.start + b.size)}
                live = set()
                for m in model.values():
                    if m['kind'] == item[0] and m['live']:
                        live.update(range(m['id'], m['id'] + m['n']))
                if item[1] in used and item[1] not in live:
                    viol.add('C17-3', 'bus-index-not-returned',
                             f'{item[0]} index {item[1]} was freed but the '
                             f'allocator still holds it')

    if rt:
        k.on_finish = lambda oc: ctx.emit(finalize(oc))
    if case['where'] == 'routine' or not rt:
        t0 = 0.5
        fin = []

        def body():
            yield from do_ops_gen(case['ops'], t0)
            fin.append(1)
            yield 0
        r = sstm.Routine(body)
        sclk.SystemClock.sched_abs(t0, r)
        if rt:
            k.wait_idle(k.now + 3600.0)
        else:
            main.process(0)
        if not fin and not viol:
            viol.add('C17-3', 'routine-did-not-finish',
                     'the routine running the operations raised: '
                     + str((w or nw).error_logs()[:1]))
    else:
        do_ops(case['ops'], None)
        k.wait_idle(k.now + 10.0)
    return finalize('ok')
