"""Run one routine program (props.rprog) in the RT world or in the NRT world
(each inside a sub-run process) and hand back what the oracles need."""

import hashlib

from sim import world
from . import rprog


def kstats(k):
    return {'steps': k.steps, 'vtime': k.now, 'sig': k.schedule_signature(),
            'digest': k.digest(), 'contended': k.contended,
            'faults': dict(k.faults), 'probes': dict(k.probes)}


def enable_line_preemption(w):
    """LINE-level pre-emption (sys.monitoring) inside the library's time
    keeping code for every simulated thread of this run."""
    from sim import kernel as K
    from sim import shims
    import sc3.base.main as sm
    import sc3.base.clock as sclk
    import sc3.base.stream as sstm
    k = w.kernel
    k.enable_monitoring(preempt_codes=K.code_objects(sm, sclk, sstm))
    shims._CTX['line_preempt_all'] = True
    for t in k.threads:
        t.line_preempt = True


def run_rt(prog, knobs, tape, emit, loopback=False, seed=7, driver=None):
    w = world.RtWorld(tape, knobs, seed=seed).boot()
    k = w.kernel
    main = w.main
    target = ('127.0.0.1', main._osc_interface.port) if loopback \
        else ('127.0.0.1', 57110)
    it = rprog.Interp(prog, main, 'rt', kernel=k, net=w.net, target=target)
    recvd = []
    if loopback:
        import sc3.base.responders as srpd

        def cb(msg, time, addr, port):
            recvd.append({'msg': list(msg), 'time': time, 'now': k.now,
                          'cur_secs': main.current_tt._seconds})
        keep = [srpd.OscFunc(cb, '/b'), srpd.OscFunc(cb, '/m')]
    done = [False]

    def finalize(outcome):
        if done[0]:
            return None
        done[0] = True
        k.freeze()
        import sc3.base.clock as sclk
        return {
            'outcome': outcome, 'trace': it.trace, 'recvd': recvd,
            'recv_log': [(t, d.hex()) for t, port, d in w.net.recv_log
                         if port == main._osc_interface.port]
            if loopback else [],
            'errors': [r[:3] for r in w.error_logs()],
            'init_time': main._init_time, 'epoch': k.epoch,
            'osc_offset': sclk.SystemClock._elapsed_osc_offset,
            'thread_exc': [repr(t.exc) for t in k.threads
                           if t.exc is not None],
            'k': kstats(k)}

    k.on_finish = lambda oc: emit(finalize(oc))
    it.start_root()
    # the main thread reads the time while the clocks run the program
    import sc3.base.clock as sclk
    for op in driver or []:
        if op[0] == 'at':
            now_e = (k.epoch + k.now) - main._init_time
            k.sleep(max(0.0, op[1] - now_e))
        elif op[0] == 'read':
            if op[1] == 'sys':
                sclk.SystemClock.seconds
            else:
                c = it.clocks.get(op[1])
                if c is not None:
                    c.beats
            k.probes['main-thread-time-read'] += 1
    k.wait_idle(k.now + 3600.0)
    return finalize('ok')


def run_nrt(prog, tape, emit, tail=0.0, seed=7, perturb=None, prior=None):
    w = world.NrtWorld(seed=seed).boot()
    main = w.main
    if prior is not None:
        # earlier use of the library in this process: another program is
        # rendered, then everything is reset
        it0 = rprog.Interp(prior, main, 'nrt', target=('127.0.0.1', 57110))
        it0.start_root()
        main.process(tail + 1.5)
        main.reset()
    it = rprog.Interp(prog, main, 'nrt', target=('127.0.0.1', 57110))
    if perturb:
        import sc3.base.builtins as bi
        for _ in range(perturb):
            bi.rand(1.0)
    it.start_root()
    try:
        score = main.process(tail)
    except Exception as e:
        return nrt_failed(e, it.trace, w)
    lst = score.list
    raw = bytes(score.raw)
    return {'outcome': 'ok', 'trace': it.trace, 'score': lst,
            'raw': raw.hex(), 'elapsed': main.elapsed_time(),
            'errors': [r[:3] for r in w.error_logs()]}


def nrt_failed(exc, trace, w):
    """main.process() itself raised: the render has no result."""
    return {'outcome': 'ok', 'trace': trace, 'score': [], 'raw': '',
            'elapsed': None,
            'process_error': f'{type(exc).__name__}: {exc}',
            'errors': [r[:3] for r in w.error_logs()]}


def process_raised(viol, oracle, *worlds):
    """-> True (and a violation) if a non-real-time render raised."""
    for res in worlds:
        if res.get('process_error'):
            viol.add(oracle, 'nrt-process-raised',
                     'main.process() raised ' + res['process_error'])
            return True
    return False


def combine(subs):
    """Aggregate kernel statistics of the RT sub-runs of one case."""
    agg = {'steps': 0, 'vtime': 0.0, 'faults': {}, 'probes': {},
           'contended': 0}
    hs = hashlib.sha1()
    hd = hashlib.sha1()
    for s in subs:
        k = s.get('k')
        if not k:
            hd.update(repr(s.get('raw', ''))[:64].encode())
            continue
        agg['steps'] += k['steps']
        agg['vtime'] += k['vtime']
        agg['contended'] += k['contended']
        for kk, v in k['faults'].items():
            agg['faults'][kk] = agg['faults'].get(kk, 0) + v
        for kk, v in k['probes'].items():
            agg['probes'][kk] = agg['probes'].get(kk, 0) + v
        hs.update(k['sig'].encode())
        hd.update(k['digest'].encode())
    agg['sig'] = hs.hexdigest()[:16]
    agg['digest'] = hd.hexdigest()
    return agg


def result(viol, agg, outcome='ok', nontrivial=True, sample=None,
           extra_probes=None, features=None):
    probes = dict(agg['probes'])
    for k, v in (extra_probes or {}).items():
        probes[k] = probes.get(k, 0) + v
    return {'violations': viol.items, 'probes': probes,
            'faults': agg['faults'], 'outcome': outcome,
            'steps': agg['steps'], 'vtime': agg['vtime'], 'sig': agg['sig'],
            'digest': agg['digest'], 'nontrivial': bool(nontrivial),
            'sample': sample, 'features': features or []}
