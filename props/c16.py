"""C16 - bus, buffer and node-id allocation is safe and complete.
Direct world: histories of alloc / free / double free / misuse from the tape
on the real allocators of a Server whose client id and option sizes are drawn
per case (so the real partition arithmetic is used), next to an interval-set
reference model; the allocator's internal random tie-break is a tape draw."""

import hashlib
import types

from . import common as C

ID = 'C16'
QUICK_RUNS = 3000
THOROUGH_SECONDS = 300

RULE = ('one evaluation = one history (up to 80 / 200 ops) over the control '
        'bus, audio bus and buffer allocators and the node id allocator of a '
        'Server configured with drawn sizes, reserved offsets, max_logins and '
        'client id; distinct = distinct history+configuration hash; '
        'non-trivial = at least one free that coalesces with a free '
        'neighbour, one exhaustion (None) and one random tie-break draw, or a '
        'node-id wrap-around')
COMPONENTS = {
    'real': 'sc3.synth._engine.ContiguousBlockAllocator / NodeIDAllocator, '
            'Server._set_client_id partition arithmetic (NRT-initialised sc3)',
    'stub': 'the allocator\'s random tie-break (bi.choice) draws from the tape'}
ASSUMPTIONS = ['no scheduler is involved: model-based history check run by '
               'the simulator\'s tape, fault ops (F10) and shrinker',
               'node-id wrap-around is reached by setting the allocator\'s '
               'counter near the top of its window (white-box shortcut)']


def gen_case(tp, tier):
    big = tier == 'thorough'
    max_logins = tp.choice([1, 1, 2, 4, 8, 32])
    cfg = {
        'max_logins': max_logins,
        'client_id': tp.draw(max_logins),
        'control_buses': tp.choice([64, 128, 256, 16384]),
        'audio_buses': tp.choice([64, 128, 256, 1024]),
        'buffers': tp.choice([32, 64, 256, 1024]),
        'io': tp.choice([[2, 2], [2, 2], [0, 2], [8, 8]]),
        'reserved': [tp.choice([0, 0, 1, 3, 8]) for _ in range(3)],
        'initial_node_id': tp.choice([1000, 1000, 2, 5000]),
    }
    # the client-side option may differ from what the server reports at
    # login (a server booted elsewhere with another -l): the reply counts
    # (an id outside the client-side option is refused by the client)
    cfg['options_max_logins'] = tp.choice(
        [max_logins] * 3 + [x for x in (1, 4, 32, 64)
                            if x > cfg['client_id']])
    # keep every per-client partition non-degenerate
    for key, r in (('control_buses', 0), ('audio_buses', 1), ('buffers', 2)):
        total = cfg[key] - (sum(cfg['io']) if key == 'audio_buses' else 0)
        per = total // max_logins
        if per < 2:
            cfg[key] = cfg[key] * 32
            per = (cfg[key] - (sum(cfg['io']) if key == 'audio_buses'
                               else 0)) // max_logins
        cfg['reserved'][r] = min(cfg['reserved'][r], max(0, per - 2))
    n = 5 + tp.draw(200 if big else 76)
    ops = []
    for _ in range(n):
        which = tp.draw(3)
        r = tp.draw(20)
        if r < 9:
            k = tp.choice([1, 1, 1, 2, 3, 4, 8, 'half', 'all', 'over'])
            ops.append(['alloc', which, k])
        elif r < 15:
            ops.append(['free', which, tp.draw(1000)])
        elif r < 16:
            ops.append(['dfree', which, tp.draw(1000)])
        elif r < 17:
            ops.append(['free_none', which])
        elif r < 18:
            ops.append(['free_unknown', which, tp.draw(100000)])
        elif r < 19:
            ops.append(['node', 1 + tp.draw(50)])
        else:
            ops.append(['node_wrap', tp.draw(40)])
    return {'cfg': cfg, 'ops': ops, 'cross': tp.draw(5) == 0,
            'other_client': tp.draw(max_logins)}


def shrink_candidates(case):
    import copy
    ops = case['ops']
    n = len(ops)
    step = max(1, n // 2)
    while step >= 1:
        for i in range(0, n, step):
            c = copy.deepcopy(case)
            del c['ops'][i:i + step]
            yield c
        step //= 2
    if case['cross']:
        c = copy.deepcopy(case)
        c['cross'] = False
        yield c


class Part:
    """Interval-set reference model of one partition."""

    def __init__(self, lo, hi):
        self.lo, self.hi = lo, hi
        self.live = {}       # start -> size
        self.freed = []      # starts freed at least once (for double free)

    def overlaps(self, a, n):
        for s, z in self.live.items():
            if a < s + z and s < a + n:
                return (s, z)
        return None

    def has_run(self, n):
        pos = self.lo
        for s in sorted(self.live):
            if s - pos >= n:
                return True
            pos = s + self.live[s]
        return self.hi - pos >= n

    def largest_run(self):
        best = 0
        pos = self.lo
        for s in sorted(self.live):
            best = max(best, s - pos)
            pos = s + self.live[s]
        return max(best, self.hi - pos)


def run_case(case, tape, ctx):
    from sim import world
    import sc3.synth._engine as eng
    import sc3.base.builtins as bi
    w = world.NrtWorld(seed=3).boot()
    import sc3.synth.server as srv
    viol = C.Violations()
    stats = {'tiebreak-draws': 0, 'coalesce': 0, 'exhausted': 0,
             'node-wrap': 0, 'allocs': 0, 'frees': 0}
    cfg = case['cfg']

    def choice(lst):
        lst = sorted(lst, key=lambda b: b.start)
        if len(lst) > 1:
            stats['tiebreak-draws'] += 1
        return lst[tape.draw(len(lst))]

    eng.bi = types.SimpleNamespace(wrap=bi.wrap, choice=choice)

    s = srv.Server.default
    o = s.options
    o.max_logins = cfg.get('options_max_logins', cfg['max_logins'])
    o.control_buses = cfg['control_buses']
    o.audio_buses = cfg['audio_buses']
    o.buffers = cfg['buffers']
    o.input_channels, o.output_channels = cfg['io']
    o.reserved_control_buses, o.reserved_audio_buses, o.reserved_buffers = \
        cfg['reserved']
    o.initial_node_id = cfg['initial_node_id']
    # what a login reply from the server sets (NRT pins it to 1)
    s._status_watcher._max_logins = None

    def bounds(cid):
        ml = cfg['max_logins']
        io = sum(cfg['io'])
        nc = cfg['control_buses'] // ml
        na = (cfg['audio_buses'] - io) // ml
        nb = cfg['buffers'] // ml
        r = cfg['reserved']
        return [(nc * cid + r[0], nc * cid + nc),
                (na * cid + io + r[1], na * cid + io + na),
                (nb * cid + r[2], nb * cid + nb)]

    cid = cfg['client_id']
    # the login reply: (client id, max_logins) as the server reports them
    s._status_watcher._handle_login_done(cid, cfg['max_logins'])
    if o.max_logins != cfg['max_logins']:
        stats['login-max-logins-differs-from-option'] = 1
    if s.client_id != cid:
        viol.add('C16-3', 'client-id-not-set',
                 f'client id {cid} of {cfg["max_logins"]} was refused')
    # the default groups (one per login, created on the server by their
    # owners) are node ids too: each lies in its owner's id range, so that
    # no client is ever handed the id of another client's default group
    for c, g in enumerate(getattr(s, '_default_groups', [])):
        if (g.node_id >> 26) != c:
            viol.add('C16-4', 'default-group-outside-owner-range',
                     f'default group of client {c} has node id {g.node_id}, '
                     f'which lies in the id range of client '
                     f'{g.node_id >> 26} (ids are handed out as '
                     f'counter | client << 26)')
            break
    stats['default-groups-checked'] = len(getattr(s, '_default_groups', []))
    allocs = [s._control_bus_allocator, s._audio_bus_allocator,
              s._buffer_allocator]
    names = ['control', 'audio', 'buffer']
    parts = [Part(lo, hi) for lo, hi in bounds(cid)]
    seen_nodes = {}
    node_count = [0]

    def size_of(which, k):
        p = parts[which]
        span = p.hi - p.lo
        if k == 'half':
            return max(1, span // 2)
        if k == 'all':
            return max(1, span)
        if k == 'over':
            return span + 1
        return k

    for n_op, op in enumerate(case['ops']):
        kind = op[0]
        where = f'op {n_op} {op}'
        if kind == 'alloc':
            which = op[1]
            a, p = allocs[which], parts[which]
            n = size_of(which, op[2])
            try:
                addr = a.alloc(n)
            except Exception as e:
                viol.add('C16-1', f'{names[which]}-alloc-raised',
                         f'{where}: alloc({n}) raised {e!r}')
                break
            stats['allocs'] += 1
            if addr is None:
                stats['exhausted'] += 1
                if p.has_run(n):
                    viol.add(
                        'C16-2', f'{names[which]}-no-space-but-free-run',
                        f'{where}: alloc({n}) reported no space, but the '
                        f'partition [{p.lo}, {p.hi}) has a free run of '
                        f'{p.largest_run()} (live: {sorted(p.live.items())})')
                    break
                continue
            if not (p.lo <= addr and addr + n <= p.hi):
                viol.add('C16-1', f'{names[which]}-outside-partition',
                         f'{where}: alloc({n}) returned {addr}, partition of '
                         f'client {cid} is [{p.lo}, {p.hi})')
                break
            ov = p.overlaps(addr, n)
            if ov is not None:
                viol.add('C16-1', f'{names[which]}-overlap',
                         f'{where}: alloc({n}) returned {addr}, overlapping '
                         f'the live range {ov}')
                break
            p.live[addr] = n
        elif kind in ('free', 'dfree', 'free_none', 'free_unknown'):
            which = op[1]
            a, p = allocs[which], parts[which]
            if kind == 'free':
                if not p.live:
                    continue
                addr = sorted(p.live)[op[2] % len(p.live)]
                size = p.live.pop(addr)
                p.freed.append(addr)
                # would it coalesce?
                pos_free_left = not any(
                    s + z == addr for s, z in p.live.items()) and addr > p.lo
                pos_free_right = not any(
                    s == addr + size for s in p.live) and addr + size < p.hi
                if pos_free_left or pos_free_right:
                    stats['coalesce'] += 1
            elif kind == 'dfree':
                cands = [x for x in p.freed if x not in p.live]
                if not cands:
                    continue
                addr = cands[op[2] % len(cands)]
                if p.overlaps(addr, 1):
                    continue     # inside a live block now: not a double free
            elif kind == 'free_none':
                addr = None
            else:
                # an address the client does not own: anywhere in the
                # partition, a little below it (another client's indices,
                # the reserved ones) or a little above it
                span = p.hi - p.lo
                addr = p.lo - 8 + op[2] % (span + 16)
                if addr in p.live or addr < 0:
                    continue
                if not p.lo <= addr < p.hi:
                    stats['free-outside-partition'] = stats.get(
                        'free-outside-partition', 0) + 1
            try:
                a.free(addr)
            except Exception as e:
                viol.add('C16-2', f'{names[which]}-{kind}-raised',
                         f'{where}: free({addr}) raised {e!r}')
                break
            stats['frees'] += 1
            # misuse must not change anything: the live blocks are intact
            if kind != 'free':
                used = {b.start: b.size for b in a.blocks()}
                if used != p.live:
                    viol.add('C16-2', f'{names[which]}-{kind}-changed-state',
                             f'{where}: free({addr}) changed the live set: '
                             f'{sorted(used.items())} vs model '
                             f'{sorted(p.live.items())}')
                    break
        elif kind in ('node', 'node_wrap'):
            na = s._node_allocator
            if kind == 'node_wrap':
                # jump close to the top of the id window (white-box shortcut)
                na._temp = 0x03FFFFFF - op[1]
                seen_nodes.clear()
                node_count[0] = 0
                cnt = op[1] + 30
                stats['node-wrap'] += 1
            else:
                cnt = op[1]
            for _ in range(cnt):
                nid = s._next_node_id()
                node_count[0] += 1
                if (nid >> 26) != cid:
                    viol.add('C16-4', 'node-id-client-range',
                             f'{where}: node id {nid} is not in the id range '
                             f'of client {cid}')
                    break
                low = nid & 0x03FFFFFF
                if low < cfg['initial_node_id']:
                    viol.add('C16-4', 'node-id-below-window',
                             f'{where}: node id {nid} (low bits {low}) is '
                             f'below the first temporary id '
                             f'{cfg["initial_node_id"]}')
                    break
                if nid in seen_nodes:
                    viol.add('C16-4', 'node-id-repeated',
                             f'{where}: node id {nid} handed out twice '
                             f'within {node_count[0]} allocations')
                    break
                seen_nodes[nid] = True
        # cross-invariant: the allocator's view of used blocks == the model
        if kind != 'node' and kind != 'node_wrap':
            which = op[1]
            used = {b.start: b.size for b in allocs[which].blocks()}
            if used != parts[which].live:
                viol.add('C16-2', f'{names[which]}-live-set',
                         f'after {where}: allocator blocks '
                         f'{sorted(used.items())} vs model '
                         f'{sorted(parts[which].live.items())}')
                break
    # partitions of different clients are disjoint (by exhaustion)
    if case['cross'] and not viol:
        other = case['other_client']
        if other != cid and all(hi - lo <= 600 for lo, hi in bounds(cid)):
            mine = []
            for a in (srv.Server.default._control_bus_allocator,
                      srv.Server.default._audio_bus_allocator,
                      srv.Server.default._buffer_allocator):
                pass
            s._set_client_id(cid)
            got_a = exhaust(s)
            s._set_client_id(other)
            got_b = exhaust(s)
            for name, xa, xb in zip(names, got_a, got_b):
                inter = set(xa) & set(xb)
                if inter:
                    viol.add('C16-3', f'{name}-partitions-overlap',
                             f'clients {cid} and {other} of '
                             f'{cfg["max_logins"]} can both be handed '
                             f'{name} index {min(inter)}')
            io = sum(cfg['io'])
            if any(x < io for x in got_a[1] + got_b[1]):
                viol.add('C16-3', 'audio-partition-in-hardware-range',
                         f'an audio bus index below {io} was handed out')
            stats['cross-client-checked'] = 1
    h = hashlib.sha1(repr((case['cfg'], case['ops'])).encode()).hexdigest()
    nontrivial = (stats['coalesce'] > 0 and stats['exhausted'] > 0
                  and stats['tiebreak-draws'] > 0) or stats['node-wrap'] > 0
    return {'violations': viol.items, 'probes': stats, 'faults': {
        'F10-double-free': sum(1 for o in case['ops'] if o[0] == 'dfree'),
        'F10-free-none': sum(1 for o in case['ops'] if o[0] == 'free_none'),
        'F10-free-unknown': sum(1 for o in case['ops']
                                if o[0] == 'free_unknown'),
        'F10-exhaustion': stats['exhausted']},
        'outcome': 'ok', 'steps': len(case['ops']), 'vtime': 0.0,
        'sig': h[:16], 'digest': h, 'nontrivial': nontrivial,
        'sample': {'cfg': cfg, 'ops': case['ops'][:10]},
        'features': ['cross'] if case['cross'] else []}


def exhaust(s):
    out = []
    for a in (s._control_bus_allocator, s._audio_bus_allocator,
              s._buffer_allocator):
        got = []
        while True:
            x = a.alloc(1)
            if x is None or len(got) > 5000:
                break
            got.append(x)
        out.append(got)
    return out
