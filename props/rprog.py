"""Routine programs: a small JSON DSL of nested routines on clocks, shared by
C05, C07, C10 and C12: generator, interpreter (runs the same program in the
RT world and in the NRT world) and an independent logical-time model.

Program
-------
{"t0": 0.5,
 "clocks": [{"tempo": 2.0, "beats": 0|b, "at": "root"}],
 "routines": [{"clock": "sys"|"app"|"t<i>", "quant": null|0|[q, p],
               "seed": null|int, "body": [stmt, ...]}, ...]}
routine 0 is the root, started with SystemClock.sched_abs(t0, root); TempoClocks
are created by the root's first statements, i.e. at logical time t0.

Statements
----------
["rec"]                 record logical seconds/beats seen
["wait", d]             yield d   (d = "inf": yield float('inf'), wait for ever)
["spawn", r]            play routine r on its clock with its quant
["make", r]             create Routine r now (a later ["spawn", r] anywhere plays that object)
["embed", r]            run routine r in place: yield from embed(Routine r)
["cset", c, v(, "fn")]  condition c's test = v (or a function returning v)
["busy", d]             the routine spends d seconds of physical time (RT only)
["resched", r, d]       clock_of_r.sched_abs(its present beat + d, the existing Routine r)
["spawna", r, d]        clock_of_r.sched_abs(its present beat + d, Routine r); d < 0: in the past
["bundle", lat, els, "bind"]  flat messages through Server.default.bind()
                        with Server.latency = lat
["msg", n]              send_msg('/m', rid, n) to the target address
["bundle", lat, els]    send_bundle(lat, *els)   els: nested lists, see mk_el
["tempo", c, v]         clocks[c].tempo = v
["etempo", c, v]        clocks[c].etempo(v): tempo change at the elapsed (physical) time
["beats", c, dv]        clocks[c].beats = clocks[c].beats + dv
["bpb", c, v]           clocks[c].beats_per_bar = v   (own clock only)
["draw", kind]          record a builtin random draw
["seed", s]             current routine rand_seed = s
["pause", r] ["resume", r] ["stop", r]
["cwait", c] ["csignal", c] ["cset", c, bool] ["cunhang", c]
["fset", f, v] ["fget", f]
["grid", c, q, p]       record clocks[c].next_time_on_grid(q, p) and friends
"""

import math

INF = float('inf')
T0 = 0.5
DELTAS = [0, 1 / 64, 1 / 32, 1 / 16, 0.125, 0.25, 0.25, 0.5, 0.5, 1, 1.5, 2]
ODD_DELTAS = [1e-9, 1 / 3, math.pi / 10, 0.1]
TEMPOS = [0.5, 1, 2, 3, 7.3, 120]


# ------------------------------------------------------------ generation

def gen(tp, feat, tier='quick'):
    big = tier == 'thorough'
    n_clocks = tp.choice([0, 1, 1, 2, 3]) if feat.get('tempo_clocks', True) \
        else 0
    clocks = []
    for _ in range(n_clocks):
        clocks.append({
            'tempo': tp.choice(TEMPOS),
            'beats': tp.choice([0, 0, 0, 4, 10.5]) if feat.get('init_beats')
            else 0,
            # reference time of the clock's beats (logical seconds); None:
            # the time of its creation
            'seconds': tp.choice([None, None, None, 0, 0.25, T0])
            if feat.get('init_beats') else None})
    names = ['sys'] + [f't{i}' for i in range(n_clocks)]
    if feat.get('app'):
        names.append('app')
    n_r = 1 + tp.draw(6 if big else 5)
    max_depth = 3
    routines = []
    depth = [0]
    for r in range(n_r):
        clock = 'sys' if r == 0 else tp.choice(names)
        quant = None
        if clock.startswith('t'):
            k = tp.draw(4)
            if k == 0:
                quant = None       # default Quant(): next whole beat
            elif k == 1:
                quant = 0
            else:
                q = tp.choice([1, 2, 4, 0.5, 3])
                p = tp.choice([0, 0, 0.25, -0.25, 0.5, -0.5, 1, -1])
                if abs(p) >= q:
                    p = 0
                quant = [q, p]
        seed = None
        if feat.get('seeds') and (r == 0 or tp.draw(2)):
            seed = tp.choice([0, tp.draw(1000), tp.draw(1000)])
        routines.append({'clock': clock, 'quant': quant, 'seed': seed,
                         'body': []})
    # parent relation: routine r (>0) is spawned by a lower-numbered routine
    parent = {}
    for r in range(1, n_r):
        cands = [p for p in range(r) if depth[p] < max_depth - 1]
        p = tp.choice(cands or [0])
        parent[r] = p
        depth.append(depth[p] + 1)
    for r in range(n_r):
        kids = [c for c, p in parent.items() if p == r]
        n_st = 2 + tp.draw(10 if big else 7)
        body = [['rec']]
        for _ in range(n_st):
            st = _gen_stmt(tp, feat, r, routines, n_clocks)
            if st[0] == 'multi':
                body.extend(st[1])
            else:
                body.append(st)
        for c in kids:
            if feat.get('embed') and tp.draw(4) == 0:
                # c is not played: r runs it in place (yield from embed(c))
                st = ['embed', c]
                routines[c]['clock'] = routines[r]['clock']
                routines[c]['quant'] = None
            elif tp.draw(3) == 0:
                st = ['spawnd', c, tp.choice(DELTAS)]   # clock.sched(d, r)
            else:
                st = ['spawn', c]                       # r.play(clock, quant)
            body.insert(1 + tp.draw(len(body)), st)
        # every wait is followed by a record so that resumptions are observed
        out = []
        for st in body:
            out.append(st)
            if st[0] == 'wait':
                out.append(['rec'])
        routines[r]['body'] = out
    if feat.get('premake'):
        # a child created by its parent (whose random generator it inherits)
        # but played later by a sibling, i.e. from another time thread
        for p in range(n_r):
            kids = [st[1] for st in routines[p]['body'] if st[0] == 'spawn']
            if len(kids) < 2 or tp.draw(2):
                continue
            c = tp.choice(kids)
            b = tp.choice([x for x in kids if x != c])
            body = [st for st in routines[p]['body']
                    if not (st[0] == 'spawn' and st[1] == c)]
            ib = next(i for i, st in enumerate(body)
                      if st[0] == 'spawn' and st[1] == b)
            body.insert(tp.draw(ib + 1), ['make', c])
            routines[p]['body'] = body
            bb = routines[b]['body']
            bb.insert(1 + tp.draw(len(bb)), ['spawn', c])
            routines[c]['seed'] = None
    if feat.get('sends') and tp.draw(4) == 0:
        # a bundle built once (a list of lists, some of them nested bundles)
        # and sent again and again by one routine: the very same objects
        r = tp.draw(n_r)
        body = routines[r]['body']
        if tp.draw(2):
            els = [['M', tp.draw(1000)],
                   ['B', tp.choice([0, 0.125, 0.25]),
                    [['M', tp.draw(1000)],
                     ['B', tp.choice([0.25, 1, 1.5]),
                      [['M', tp.draw(1000)]]]]]]
        else:
            els = _gen_els(tp, 0)
        def renumber(es):
            # (the user changes an argument of the kept messages in place
            # before sending the lists again)
            return [['M', tp.draw(1000)] if e[0] == 'M'
                    else ['B', e[1], renumber(e[2])] for e in es]
        at = 1
        change = tp.draw(2) == 0
        for _ in range(2 + tp.draw(2)):
            at = at + tp.draw(len(body) - at + 1)
            body.insert(at, ['bundle', tp.choice([None, 0, 0.125, 0.2]),
                             renumber(els) if change else els, 'keep', 0])
            at += 1
    return {'t0': T0, 'clocks': clocks, 'routines': routines}


def _gen_stmt(tp, feat, r, routines, n_clocks):
    x = tp.draw(26 if (feat.get('sync') or feat.get('control')) else 20)
    if x >= 20:
        x = 19
        if feat.get('sync') and feat.get('control'):
            feat = dict(feat, **{tp.choice(['sync', 'control']): False})
        feat = dict(feat, draws=False, grid=False)
        return _gen_stmt19(tp, feat, r, routines, n_clocks)
    if x < 9:
        d = tp.choice(DELTAS)
        if feat.get('odd_deltas') and tp.draw(5) == 0:
            d = tp.choice(ODD_DELTAS)
        if feat.get('inf_wait') and tp.draw(14) == 0:
            d = 'inf'              # wait for ever: the routine ends here
        return ['wait', d]
    if x < 11:
        return ['rec']
    if feat.get('sends') and x < 15:
        if feat.get('busy') and tp.draw(6) == 0:
            # the routine takes its time (and keeps its clock thread and the
            # library's lock busy meanwhile); logical time does not care
            return ['busy', tp.choice([0.01, 0.05, 0.2, 0.5])]
        if tp.draw(3) == 0:
            if feat.get('cmsg') and tp.draw(3) == 0:
                # a message that carries a bundle as its last argument (a
                # completion bundle): stamped like any bundle sent there
                return ['msg', tp.draw(100),
                        ['B', tp.choice([0, 0.125, 0.2, 0.25, 1, None]),
                         _gen_els(tp, 1)]]
            return ['msg', tp.draw(100)]
        if feat.get('bind') and tp.draw(3) == 0:
            # the same messages collected by a server bind() block: sent as
            # one bundle with the server's latency when the block exits
            return ['bundle', _gen_lat(tp),
                    [['M', tp.draw(1000)] for _ in range(1 + tp.draw(3))],
                    'bind']
        return ['bundle', _gen_lat(tp), _gen_els(tp, 0)]
    if feat.get('tempo_change') and x < 17 and n_clocks:
        c = tp.draw(n_clocks)
        k = tp.draw(3)
        if k == 0:
            return ['tempo', c, tp.choice(TEMPOS)]
        if k == 1:
            return ['beats', c, tp.choice([-1, -0.5, 0.5, 1, 2])]
        if routines[r]['clock'] == f't{c}' or tp.draw(4) == 0:
            return ['bpb', c, tp.choice([2, 3, 4, 5, 7])]
        if feat.get('etempo') and tp.draw(2) == 0:
            return ['etempo', c, tp.choice(TEMPOS)]   # at the elapsed time
        return ['tempo', c, tp.choice(TEMPOS)]
    if feat.get('grid') and x < 19 and n_clocks:
        q = tp.choice([0, 1, 2, 4, 0.5, 3, 1.5, 1, 2, -1])
        p = tp.choice([0, 0.25, -0.25, 0.5, -0.5, 1, -1, 1.5, -2.5])
        if q and abs(p) >= q:
            p = 0
        # reference beat: the current beat (None) or an explicit one
        ref = tp.choice([None, None, 0, 0.0, 1.5, -2, 7, 0.25, 100])
        return ['grid', tp.draw(n_clocks), q, p, ref]
    if feat.get('draws') and x < 19:
        return ['draw', tp.choice(DRAW_KINDS)]
    if feat.get('sync') and x < 20 and tp.draw(2):
        k = tp.draw(8)
        c = tp.draw(2)
        if k < 3:
            return ['cwait', c]
        if k == 3:
            return ['csignal', c]
        if k == 4:
            return ['cset', c, bool(tp.draw(2))] + \
                (['fn'] if tp.draw(3) == 0 else [])
        if k == 5:
            return ['cunhang', c]
        if k == 6:
            return ['fset', tp.draw(2), tp.draw(100)]
        return ['fget', tp.draw(2)]
    if feat.get('control') and x < 20:
        k = tp.draw(4)
        t = tp.draw(len(routines))
        if t == r:
            t = (t + 1) % len(routines)
        if t == r or t == 0:
            return ['wait', tp.choice(DELTAS)]
        return [['pause', 'resume', 'resume', 'stop'][k], t]
    return ['wait', tp.choice(DELTAS)]


def _gen_stmt19(tp, feat, r, routines, n_clocks):
    if feat.get('sync'):
        k = tp.draw(8)
        c = tp.draw(2)
        if k < 3:
            return ['cwait', c]
        if k == 3:
            return ['csignal', c]
        if k == 4:
            return ['cset', c, bool(tp.draw(2))] + \
                (['fn'] if tp.draw(3) == 0 else [])
        if k == 5:
            return ['cunhang', c]
        if k == 6:
            return ['fset', tp.draw(2), tp.draw(100)]
        return ['fget', tp.draw(2)]
    k = tp.draw(4)
    t = tp.draw(len(routines))
    if t == r:
        t = (t + 1) % len(routines)
    if t == r or t == 0:
        return ['wait', tp.choice(DELTAS)]
    if tp.draw(4) == 0:
        # paused and resumed before its pending wake-up, onto some clock
        return ['multi', [['pause', t], ['resume', t, tp.choice(
            ['sys'] + [f't{i}' for i in range(n_clocks)])]]]
    st = [['pause', 'resume', 'resume', 'stop'][k], t]
    if st[0] == 'resume' and tp.draw(3) == 0:
        # resume onto an explicitly given clock (possibly another one)
        st.append(tp.choice(['sys'] + [f't{i}' for i in range(n_clocks)]))
    return st


def _gen_lat(tp):
    # (the last four put whole or half logical seconds within one tick below
    # a whole second: fraction part of the timetag at its upper boundary)
    return tp.choice([None, -1, 0, 0, 1e-9, 0.2, 0.2, 0.125, 1,
                      1 - 2.0 ** -52, 1 - 2.0 ** -51, 0.5 - 2.0 ** -52,
                      1 - 2.0 ** -50])


def _gen_els(tp, depth):
    els = []
    for _ in range(1 + tp.draw(3)):
        if depth < 2 and tp.draw(5) == 0:
            els.append(['B', tp.choice([None, 0, 0.125, 0.2, 0.25, 1, 1.5]),
                        _gen_els(tp, depth + 1)])
        else:
            els.append(['M', tp.draw(1000)])
    return els


DRAW_KINDS = ['rand_f', 'rand_i', 'rand2', 'rrand', 'exprand', 'coin',
              'choice', 'linrand', 'bilinrand', 'sum3rand']


def _shape(els):
    return repr([e[0] if e[0] == 'M' else [e[1], _shape(e[2])] for e in els])


def _update(objs, els):
    """write the message arguments of the spec into the kept list objects"""
    for o, e in zip(objs, els):
        if e[0] == 'M':
            o[2] = e[1]
        else:
            _update(o[1:], e[2])


def mk_el(el, rid):
    """DSL element -> sc3 list form."""
    if el[0] == 'M':
        return ['/b', rid, el[1]]
    return [el[1]] + [mk_el(e, rid) for e in el[2]]


def shrink_candidates(prog):
    import copy
    rs = prog['routines']
    # drop a whole routine that nobody spawns any more / leaf routines
    spawned = {st[1] for r in rs for st in r['body']
               if st[0] in ('spawn', 'spawnd', 'embed', 'spawna')}
    for i in range(len(rs) - 1, 0, -1):
        c = copy.deepcopy(prog)
        # remove spawn statements for i, keep indices stable by emptying
        for r in c['routines']:
            r['body'] = [st for st in r['body']
                         if not (st[0] in ('spawn', 'spawnd', 'embed', 'spawna')
                                 and st[1] == i)]
        if i in spawned:
            c['routines'][i]['body'] = []
            yield c
    for i, r in enumerate(rs):
        for j in range(len(r['body']) - 1, -1, -1):
            c = copy.deepcopy(prog)
            del c['routines'][i]['body'][j]
            yield c
    for i, r in enumerate(rs):
        if r['quant'] not in (None, 0):
            c = copy.deepcopy(prog)
            c['routines'][i]['quant'] = 0
            yield c
        if r['clock'] != 'sys':
            c = copy.deepcopy(prog)
            c['routines'][i]['clock'] = 'sys'
            c['routines'][i]['quant'] = None
            yield c


# ------------------------------------------------------------ interpreter

class Interp:
    """Executes a program against an initialised sc3 (RT under the kernel or
    NRT).  Everything observable goes to self.trace."""

    def __init__(self, prog, main, mode, kernel=None, net=None,
                 target=('127.0.0.1', 57110)):
        import sc3.base.clock as sclk
        import sc3.base.stream as sstm
        import sc3.base.netaddr as snad
        import sc3.base.builtins as bi
        self.prog = prog
        self.main = main
        self.mode = mode
        self.k = kernel
        self.net = net
        self.sclk = sclk
        self.sstm = sstm
        self.bi = bi
        self.trace = []
        self.sends = []
        self.errors = []
        self.clocks = {'sys': sclk.SystemClock, 'app': sclk.AppClock}
        self.robj = {}
        self.conds = {}
        self.kept = {}
        self.cflags = {}
        self.premade = {}
        self.flows = {}
        self.addr = snad.NetAddr(*target)
        self.nrec = {}

    def now(self):
        return self.k.now if self.k is not None else None

    def start_root(self):
        root = self.make(0)
        self.sclk.SystemClock.sched_abs(self.prog['t0'], root)

    def clock(self, name):
        return self.clocks[name]

    def make(self, rid):
        rdef = self.prog['routines'][rid]
        body = self.body(rid, rdef)
        r = self.sstm.Routine(body)
        if rdef.get('seed') is not None:
            r.rand_seed = rdef['seed']
        self.robj[rid] = r
        return r

    def body(self, rid, rdef):
        me = self

        def rfunc(inval):
            rout, clock = inval
            rout = me.robj.get(rid, rout)   # (an embedded routine is handed
            if rid == 0:                    # its embedder's inval)
                for i, cd in enumerate(me.prog['clocks']):
                    if cd.get('seconds') is not None:
                        me.clocks[f't{i}'] = me.sclk.TempoClock(
                            cd['tempo'], cd.get('beats') or None,
                            cd['seconds'])
                    else:
                        me.clocks[f't{i}'] = me.sclk.TempoClock(
                            cd['tempo'], cd.get('beats') or None)
            for st in rdef['body']:
                op = st[0]
                if op == 'wait':
                    me.event('wait', rid, st[1])
                    inval = yield (INF if st[1] == 'inf' else st[1])
                    clock = inval[1]
                elif op == 'embed':
                    me.event('embed', rid, st[1])
                    inner = me.make(st[1])
                    inval = yield from me.sstm.embed(inner, (inner, clock))
                    if inval is not None:
                        clock = inval[1]
                elif op == 'cwait':
                    me.event('cwait', rid, st[1])
                    yield from me.cond(st[1]).wait()
                    me.event('cwoke', rid, st[1])
                elif op == 'fget':
                    me.event('fget', rid, st[1])
                    v = yield from me.flow(st[1]).value
                    me.event('fgot', rid, st[1], v)
                else:
                    me.stmt(rid, rout, clock, st)
            me.event('end', rid)
        rfunc.__qualname__ = f'r{rid}'
        return rfunc

    def cond(self, c):
        if c not in self.conds:
            self.conds[c] = self.sstm.Condition()
        return self.conds[c]

    def flow(self, f):
        if f not in self.flows:
            self.flows[f] = self.sstm.FlowVar()
        return self.flows[f]

    def event(self, kind, rid, *vals):
        cur = self.main.current_tt
        # the routine the clock is playing: the outermost one of the chain
        t, top = cur, None
        while t is not None and t is not self.main.main_tt:
            top = t
            t = t.parent
        top_id = None
        for i, r in self.robj.items():
            if r is top:
                top_id = i
        self.trace.append({'ev': kind, 'r': rid, 'secs': cur._seconds,
                           'vals': list(vals), 'now': self.now(),
                           'state': cur.state.name, 'top': top_id})

    def stmt(self, rid, rout, clock, st):
        op = st[0]
        main = self.main
        if op == 'rec':
            k = self.nrec.get(rid, 0)
            self.nrec[rid] = k + 1
            cur = main.current_tt
            self.trace.append({
                'ev': 'rec', 'r': rid, 'k': k,
                'secs': clock.seconds, 'beats': clock.beats,
                'tempo': getattr(clock, '_tempo', None),
                'cur_secs': cur._seconds, 'cur_is_self': cur is rout,
                'clock_ok': clock is self.clocks[
                    self.prog['routines'][rid]['clock']],
                'now': self.now()})
        elif op == 'make':
            self.event('make', rid, st[1])
            self.premade[st[1]] = self.make(st[1])
        elif op == 'spawn':
            cid = st[1]
            cdef = self.prog['routines'][cid]
            r = self.premade.pop(cid, None) or self.make(cid)
            q = cdef['quant']
            cc = self.clocks[cdef['clock']]
            self.trace.append({'ev': 'spawn', 'r': rid, 'child': cid,
                               'secs': main.current_tt._seconds,
                               'ref': cc.beats,
                               'bbb': getattr(cc, '_base_bar_beat', None),
                               'now': self.now()})
            r.play(self.clocks[cdef['clock']],
                   None if q is None else (q if q == 0 else tuple(q)))
        elif op == 'spawnd':
            cid = st[1]
            cdef = self.prog['routines'][cid]
            r = self.make(cid)
            self.trace.append({'ev': 'spawnd', 'r': rid, 'child': cid,
                               'secs': main.current_tt._seconds,
                               'delta': st[2], 'now': self.now()})
            self.clocks[cdef['clock']].sched(st[2], r)
        elif op == 'spawna':
            # clock.sched_abs(time point relative to the present, routine):
            # a negative offset is a time point that has already elapsed
            cid = st[1]
            cdef = self.prog['routines'][cid]
            r = self.make(cid)
            cc = self.clocks[cdef['clock']]
            at = cc.beats + st[2]
            self.trace.append({'ev': 'spawnd', 'r': rid, 'child': cid,
                               'secs': main.current_tt._seconds,
                               'delta': st[2], 'now': self.now()})
            cc.sched_abs(at, r)
        elif op == 'busy':
            if self.k is not None:
                self.k.sleep(st[1])
        elif op == 'resched':
            # schedule again a routine that is already pending on its clock
            # (it moves: one wake-up, behind the others at its new time)
            r = self.robj.get(st[1])
            if r is not None:
                cc = self.clocks[self.prog['routines'][st[1]]['clock']]
                self.event('resched', rid, st[1], st[2])
                cc.sched_abs(cc.beats + st[2], r)
        elif op == 'msg' and len(st) > 2:
            self.send(rid, 'msg', None, [['M', st[1]]],
                      lambda: self.addr.send_msg('/m', rid, st[1],
                                                 mk_el(st[2], rid)),
                      nested=st[2])
        elif op == 'msg':
            self.send(rid, 'msg', None, [['M', st[1]]],
                      lambda: self.addr.send_msg('/m', rid, st[1]))
        elif op == 'bundle':
            els = [mk_el(e, rid) for e in st[2]]
            if len(st) > 3 and st[3] == 'keep':
                # the user keeps the lists and sends the same objects again
                kept = self.kept.setdefault((rid, st[4], _shape(st[2])), els)
                _update(kept, st[2])
                els = kept
            if len(st) > 3 and st[3] == 'bind':
                self.send(rid, 'bundle', st[1], st[2],
                          lambda: self.bind_send(st[1], els))
            else:
                self.send(rid, 'bundle', st[1], st[2],
                          lambda: self.addr.send_bundle(st[1], *els))
        elif op == 'tempo':
            c = self.clocks[f't{st[1]}']
            b0, s0 = c.beats, c.seconds
            c.tempo = st[2]
            b1 = c.beats
            self.event('tempo', rid, st[1], st[2],
                       {'b0': b0, 's0': s0, 'b1': b1, 's1': c.beats2secs(b1),
                        'tempo': c.tempo, 'beat_dur': c.beat_dur})
        elif op == 'etempo':
            c = self.clocks[f't{st[1]}']
            tempo0 = c._tempo
            t0 = main.elapsed_time()
            eb0 = c.elapsed_beats()
            c.etempo(st[2])
            eb1 = c.elapsed_beats()
            t1 = main.elapsed_time()
            self.event('etempo', rid, st[1], st[2],
                       {'t0': t0, 't1': t1, 'eb0': eb0, 'eb1': eb1,
                        'tempo0': tempo0, 'tempo': c.tempo,
                        'beat_dur': c.beat_dur})
        elif op == 'beats':
            c = self.clocks[f't{st[1]}']
            b0, s0 = c.beats, c.seconds
            c.beats = b0 + st[2]
            b1 = c.beats
            self.event('beats', rid, st[1], st[2],
                       {'b0': b0, 's0': s0, 'b1': b1, 's1': c.beats2secs(b1)})
        elif op == 'bpb':
            c = self.clocks[f't{st[1]}']
            own = clock is c
            bar0 = c.beats2bars(c.beats)    # on the grid about to be left
            try:
                c.beats_per_bar = st[2]
                err = None
            except Exception as e:
                err = type(e).__name__
            self.event('bpb', rid, st[1], st[2],
                       {'own': own, 'err': err, 'beats': c.beats,
                        'bbb': c.base_bar_beat, 'base_bar': c.base_bar,
                        'bpb': c.beats_per_bar, 'bar0': bar0,
                        'bar1': c.beats2bars(c.beats)})
        elif op == 'seed':
            rout.rand_seed = st[1]
            self.event('seed', rid, st[1])
        elif op == 'draw':
            self.event('draw', rid, st[1], self.draw(st[1]))
        elif op in ('pause', 'resume', 'stop'):
            t = self.robj.get(st[1])
            info = None
            if t is not None:
                info = {'pre': t.state.name, 'exc': None}
                try:
                    if op == 'resume' and len(st) > 2:
                        t.resume(self.clocks[st[2]])   # onto another clock
                    else:
                        getattr(t, op)()
                except Exception as e:
                    info['exc'] = type(e).__name__
                info['post'] = t.state.name
            self.event(op, rid, st[1], info)
        elif op == 'stopclock':
            self.event('stopclock', rid, st[1])
            self.clocks[f't{st[1]}'].stop()
        elif op == 'csignal':
            self.event('csignal', rid, st[1])
            self.cond(st[1]).signal()
        elif op == 'cunhang':
            self.event('cunhang', rid, st[1])
            self.cond(st[1]).unhang()
        elif op == 'cset':
            self.event('cset', rid, st[1], st[2])
            if len(st) > 3:
                # the test becomes a function (of a flag kept here)
                self.cflags[st[1]] = st[2]
                self.cond(st[1]).test = \
                    lambda c=st[1]: self.cflags[c]
            else:
                self.cond(st[1]).test = st[2]
        elif op == 'fset':
            try:
                self.flow(st[1]).value = st[2]
                self.event('fset', rid, st[1], st[2])
            except Exception as e:
                self.event('fset-refused', rid, st[1], type(e).__name__)
        elif op == 'grid':
            c = self.clocks[f't{st[1]}']
            self.event('grid', rid, st[1], st[2], st[3], self.grid(c, st))
        else:
            raise ValueError(st)

    def grid(self, c, st):
        q, p = st[2], st[3]
        out = {'beats': c.beats, 'secs': c.seconds, 'tempo': c.tempo,
               'beat_dur': c.beat_dur, 'bpb': c.beats_per_bar,
               'bbb': c.base_bar_beat, 'base_bar': c.base_bar}
        ref = st[4] if len(st) > 4 else None
        out['ref'] = ref
        try:
            out['g'] = c.next_time_on_grid(q, p) if ref is None \
                else c.next_time_on_grid(q, p, ref)
        except ValueError as e:
            out['g_err'] = 'ValueError'
        out['next_bar'] = c.next_bar()
        out['bar'] = c.bar()
        out['beat_in_bar'] = c.beat_in_bar()
        out['ttnb'] = c.time_to_next_beat(q if q > 0 else 1)
        out['g0'] = c.next_time_on_grid(q if q > 0 else 1, 0)
        x = out['beats']
        out['rt_secs'] = c.secs2beats(c.beats2secs(x))
        out['rt_bars'] = c.bars2beats(c.beats2bars(x))
        out['b2s'] = c.beats2secs(x)
        out['elapsed_beats'] = c.elapsed_beats() if self.mode == 'rt' \
            else None
        return out

    def draw(self, kind):
        bi = self.bi
        if kind == 'rand_f':
            return bi.rand(1.0)
        if kind == 'rand_i':
            return bi.rand(100)
        if kind == 'rand2':
            return bi.rand2(1.0)
        if kind == 'rrand':
            return bi.rrand(1, 50)
        if kind == 'exprand':
            return bi.exprand(1.0, 100.0)
        if kind == 'coin':
            return bi.coin(0.5)
        if kind == 'choice':
            return bi.choice([1, 2, 3, 4, 5, 6, 7])
        if kind == 'linrand':
            return bi.linrand(1.0)
        if kind == 'bilinrand':
            return bi.bilinrand(1.0)
        if kind == 'sum3rand':
            return bi.sum3rand(1.0)
        raise ValueError(kind)

    def bind_send(self, lat, msgs):
        """The messages through a Server.bind() block of the default server
        (whose latency is `lat`)."""
        import sc3.synth.server as ssrv
        srv = ssrv.Server.default
        if srv.addr != self.addr:
            srv.addr = self.addr
        srv.latency = lat
        with srv.bind():
            for m in msgs:
                srv.addr.send_msg(*m)

    def send(self, rid, kind, lat, els, fn, nested=None):
        main = self.main
        cur = main.current_tt
        rec = {'ev': 'send', 'r': rid, 'kind': kind, 'lat': lat, 'els': els,
               'secs': cur._seconds, 'now0': self.now(),
               'in_routine': cur is not main.main_tt}
        if nested is not None:
            rec['nested'] = nested
        n0 = len(self.net.captured) if self.net is not None else 0
        try:
            fn()
            rec['raised'] = None
        except ValueError as e:
            rec['raised'] = 'ValueError'
        except OSError as e:
            rec['raised'] = 'OSError'
        rec['now1'] = self.now()
        if self.net is not None:
            me = self.k.current.idx     # other threads may send meanwhile
            rec['dgrams'] = [c[3].hex() for c in self.net.captured[n0:]
                             if c[4] == me]
        self.trace.append(rec)


# ------------------------------------------------------------------ model

class MClock:
    """Affine beats<->seconds map + meter, written from the documentation."""

    def __init__(self, tempo, beats, seconds):
        self.tempo = float(tempo)
        self.base_beats = float(beats or 0.0)
        self.base_secs = seconds
        self.bpb = 4.0
        self.bbb = 0.0       # base bar beat
        self.base_bar = 0.0

    def b2s(self, b):
        return (b - self.base_beats) / self.tempo + self.base_secs

    def s2b(self, s):
        return (s - self.base_secs) * self.tempo + self.base_beats

    def set_tempo(self, beats_now, v):
        self.base_secs = self.b2s(beats_now)
        self.base_beats = beats_now
        self.tempo = float(v)

    def set_beats(self, secs_now, b):
        self.base_secs = secs_now
        self.base_beats = b

    def grid(self, ref, q, p):
        """Earliest beat >= ref congruent to p mod q counted from bbb.
        Returns (g, alt) where alt is the other acceptable answer when ref
        sits within rounding noise of a grid point (else None)."""
        if q == 0:
            return ref + p, None
        pm = p % q
        x = (ref - self.bbb - pm) / q
        n = math.ceil(x)
        g = n * q + self.bbb + pm
        alt = None
        rx = round(x)
        if x != rx and abs(x - rx) < 1e-9:
            # ref sits within rounding noise of a grid point: the library's
            # own float noise may fall on the other side
            alt = ((rx + 1) if n == rx else rx) * q + self.bbb + pm
        return g, alt

    def set_bpb(self, beats_now, v):
        self.base_bar = float(math.floor(
            (beats_now - self.bbb) / self.bpb + self.base_bar + 0.5))
        self.bbb = beats_now
        self.bpb = float(v)

    def beats2bars(self, b):
        return (b - self.bbb) / self.bpb + self.base_bar

    def bars2beats(self, bars):
        return (bars - self.base_bar) * self.bpb + self.bbb


class Model:
    """Reference interpreter of a program: which routine resumes when, at
    which logical seconds/beats.  'Ideal real-time' semantics: pending
    wake-ups on a TempoClock are kept in beats, so a tempo or beats change
    re-times them."""

    def __init__(self, prog):
        self.prog = prog
        self.clocks = {}
        self.pending = []     # [clockname, t, seq, rid]
        self.seq = 0
        self.pc = {}
        self.frames = {}
        self.nrec = {}
        self.recs = {}        # rid -> list of dict(secs, beats, alt_beats)
        self.events = []      # global order of model events
        self.starts = {}      # rid -> (secs, beats, alt)
        self.ambiguous = False
        self.paused = set()
        self.stopped = set()
        self.steps = 0

    def secs_of(self, cname, t):
        if cname.startswith('t'):
            return self.clocks[cname].b2s(t)
        return t

    def add(self, cname, t, rid, alt=None):
        if alt is not None:
            self.ambiguous = True     # a reference beat within noise of a grid point
        self.seq += 1
        self.pending.append([cname, t, self.seq, rid, alt])

    def run(self, max_steps=5000):
        self.add('sys', self.prog['t0'], 0)
        while self.pending and self.steps < max_steps:
            self.steps += 1
            best = None
            bk = None
            for e in self.pending:
                key = (self.secs_of(e[0], e[1]), e[2])
                if best is None or key < bk:
                    best, bk = e, key
            # cross-clock ties at the same instant have no single RT answer
            for e in self.pending:
                if e is not best and e[0] != best[0] and abs(
                        self.secs_of(e[0], e[1]) - bk[0]) < 1e-7:
                    self.cross_tie = True
            self.pending.remove(best)
            self.resume(best)
        return self

    cross_tie = False

    def resume(self, e):
        cname, t, _, rid, alt = e
        rdef = self.prog['routines'][rid]
        secs = self.secs_of(cname, t)
        # frames: an embedded routine runs inside the routine that embeds it
        # (which is the one the clock wakes up), under its own label
        frames = self.frames.setdefault(rid, [[rid, 0]])
        sched_rid = rid
        rid, pc = frames[-1]
        body = self.prog['routines'][rid]['body']
        if rid not in self.starts:
            self.starts[rid] = (secs, t if cname.startswith('t') else None,
                                alt)
        if rid == 0 and pc == 0:
            for i, cd in enumerate(self.prog['clocks']):
                self.clocks[f't{i}'] = MClock(
                    cd['tempo'], cd.get('beats') or 0.0,
                    secs if cd.get('seconds') is None else cd['seconds'])
        while True:
            if pc >= len(body):
                self.events.append(('end', rid, secs))
                frames.pop()
                if not frames:
                    break
                rid, pc = frames[-1]
                body = self.prog['routines'][rid]['body']
                continue
            st = body[pc]
            pc += 1
            frames[-1][1] = pc
            op = st[0]
            if op == 'embed':
                frames.append([st[1], 0])
                rid, pc = st[1], 0
                body = self.prog['routines'][rid]['body']
                self.starts.setdefault(rid, (
                    secs, t if cname.startswith('t') else None, alt))
            elif op == 'rec':
                k = self.nrec.get(rid, 0)
                self.nrec[rid] = k + 1
                if cname.startswith('t'):
                    beats = self.clocks[cname].s2b(secs)
                else:
                    beats = secs
                rec = {'k': k, 'secs': secs, 'beats': beats}
                if alt is not None:
                    rec['alt_secs'] = self.secs_of(cname, alt)
                    rec['alt_beats'] = alt
                self.recs.setdefault(rid, []).append(rec)
            elif op == 'wait':
                d = INF if st[1] == 'inf' else st[1]
                if d != INF:
                    self.add(cname, t + d, sched_rid, None if alt is None
                             else alt + d)
                self.events.append(('wait', rid, secs))
                return
            elif op == 'spawn':
                cid = st[1]
                cdef = self.prog['routines'][cid]
                cc = cdef['clock']
                if cc.startswith('t'):
                    mc = self.clocks[cc]
                    ref = mc.s2b(secs)
                    q = cdef['quant']
                    if q is None:
                        qq, pp = 1, 0
                    elif q == 0:
                        qq, pp = 0, 0
                    else:
                        qq, pp = q
                    g, galt = mc.grid(ref, qq, pp)
                    self.add(cc, g, cid, galt)
                else:
                    self.add(cc, secs, cid)
                self.events.append(('spawn', rid, cid, secs))
            elif op == 'spawnd':
                cid = st[1]
                cc = self.prog['routines'][cid]['clock']
                if cc.startswith('t'):
                    self.add(cc, self.clocks[cc].s2b(secs) + st[2], cid)
                else:
                    self.add(cc, secs + st[2], cid)
                self.events.append(('spawn', rid, cid, secs))
            elif op == 'tempo':
                mc = self.clocks[f't{st[1]}']
                mc.set_tempo(mc.s2b(secs), st[2])
                self.events.append(('tempo', rid, st[1], secs))
            elif op == 'beats':
                mc = self.clocks[f't{st[1]}']
                mc.set_beats(secs, mc.s2b(secs) + st[2])
                self.events.append(('beats', rid, st[1], secs))
            elif op == 'bpb':
                if cname == f't{st[1]}':      # refused from anywhere else
                    mc = self.clocks[cname]
                    mc.set_bpb(mc.s2b(secs), st[2])
            elif op in ('msg', 'bundle'):
                self.events.append(('send', rid, secs, st))
            else:
                pass
