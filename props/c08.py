"""C08 - real-time clocks wake every task once, on time, in order, and
survive errors.  See DESIGN.md section 3 (C08)."""

import math

from sim import kernel as K
from sim import world
from . import common as C

ID = 'C08'
INF = float('inf')

DELTAS = [0, 0, 1 / 64, 1 / 16, 0.125, 0.25, 0.25, 0.5, 0.5, 1, 1, 2, 3.7]
TEMPOS = [0.5, 1, 1, 2, 3, 7.3, 120]


# ------------------------------------------------------------- generation

def scenario_busy_slowdown(tp):
    """Directed template: a task on SystemClock is still running (holding
    the library's lock) when the head task of a TempoClock falls due, and
    before it returns it slows that clock down or sets its beats back: the
    TempoClock, whose timed wait has expired meanwhile, must look at the
    time again and keep sleeping until the new deadline."""
    tempo = tp.choice([1, 2, 4])
    d0 = tp.choice([0.5, 1, 0.75])                 # beats
    start = d0 / tempo - tp.choice([0.05, 0.1, 0.2])
    busy = tp.choice([0.3, 0.5, 0.8])
    if tp.draw(2):
        slow = ['tempo', 0, tempo * tp.choice([0.1, 0.25])]
    else:
        slow = ['beats', 0, -tp.choice([1, 2])]
    tasks = [
        {'clock': 't0', 'kind': tp.choice(['func', 'routine']),
         'script': [{'ops': [], 'ret': None}]},
        {'clock': tp.choice(['sys', 'sys', 'app']), 'kind': 'func',
         'script': [{'ops': [['busy', busy], slow], 'ret': None}]},
        {'clock': 't0', 'kind': 'func',
         'script': [{'ops': [], 'ret': tp.choice([None, 0.25])}]}]
    drv = [['sched', 0, d0], ['sched', 1, max(0.0, start)],
           ['sched', 2, d0 + tp.choice([0, 0.5])], ['sleep', 4]]
    knobs = C.gen_knobs(tp, fault_free_pm=500)
    return {'knobs': knobs, 'tempos': [tempo], 'tasks': tasks,
            'actors': [drv], 'responders': [],
            'scenario': 'busy-slowdown'}


def gen_case(tp, tier):
    big = tier == 'thorough'
    if tp.draw(12) == 0:
        return scenario_busy_slowdown(tp)
    knobs = C.gen_knobs(tp, max_steps=200000 if big else 30000)
    n_tempo = tp.choice([0, 0, 1, 1, 2, 3])
    tempos = [tp.choice(TEMPOS) for _ in range(n_tempo)]
    clocks = ['sys', 'app'] + [f't{i}' for i in range(n_tempo)]
    # swarm: restrict the clock kinds used by tasks in this run
    used = [c for c in clocks if tp.draw(3) > 0] or ['sys']
    n_tasks = 1 + tp.draw(8 if big else 6)
    feat = {
        'raise': tp.draw(3) == 0,
        'resched': tp.draw(2) == 0,
        'inner': tp.draw(2) == 0,
        'tempo': n_tempo > 0 and tp.draw(2) == 0,
        'clear': tp.draw(4) == 0,
        'stop': n_tempo > 0 and tp.draw(6) == 0,
        'inject': tp.draw(3) == 0,
        'inf': tp.draw(8) == 0,
        'cmdperiod': tp.draw(6) == 0,
        'busy': tp.draw(4) == 0,
        'readd': tp.draw(3) == 0,
        'huge': tp.draw(8) == 0,
    }
    tasks = []
    for i in range(n_tasks):
        clock = tp.choice(used)
        # ('obj': a user object with its own __awake__, the protocol the
        # clocks accept besides functions and routines)
        kind = tp.choice(['func', 'func', 'routine', 'func', 'routine',
                          'obj'])
        nsteps = 1 + tp.draw(4)
        script = []
        for _ in range(nsteps):
            ret = None
            r = tp.draw(10)
            if feat['resched'] and r < 4:
                ret = tp.choice(DELTAS)
            elif feat['inf'] and r >= 8:
                ret = 'inf'        # "wait for ever": never woken again
            elif feat['raise'] and r < 6 and kind in ('func', 'obj'):
                ret = 'raise'      # routine failure is C11's subject
            inner = []
            if feat['inner'] and tp.draw(3) == 0:
                inner = [_gen_op(tp, feat, n_tasks, n_tempo, clocks, i, True)
                         for _ in range(1 + tp.draw(2))]
            script.append({'ops': inner, 'ret': ret})
        tasks.append({'clock': clock, 'kind': kind, 'script': script})
    n_threads = tp.choice([0, 1, 1, 2])
    actors = []
    for a in range(1 + n_threads):
        nops = 1 + tp.draw(10 if big else 7)
        ops = []
        for _ in range(nops):
            if tp.draw(4) == 0:
                ops.append(['sleep', tp.choice(DELTAS + [0.01, 0.3])])
            else:
                ops.append(
                    _gen_op(tp, feat, n_tasks, n_tempo, clocks, None, False))
        actors.append(ops)
    responders = []
    if feat['inject']:
        for r in range(1 + tp.draw(2)):
            responders.append(
                [_gen_op(tp, feat, n_tasks, n_tempo, clocks, None, True)
                 for _ in range(1 + tp.draw(2))])
        for ops in actors:
            for _ in range(tp.draw(3)):
                ops.insert(tp.draw(len(ops) + 1),
                           ['inject', tp.draw(len(responders))])
    return {'knobs': knobs, 'tempos': tempos, 'tasks': tasks,
            'actors': actors, 'responders': responders}


def _gen_op(tp, feat, n_tasks, n_tempo, clocks, self_task, inner):
    r = tp.draw(20)
    if feat['tempo'] and r < 3 and n_tempo:
        k = tp.draw(3)
        ti = tp.draw(n_tempo)
        if k == 0:
            return ['tempo', ti, tp.choice(TEMPOS)]
        if k == 1:
            return ['etempo', ti, tp.choice(TEMPOS)]
        return ['beats', ti, tp.choice([-1, -0.5, 0.25, 1, 2])]
    if feat['clear'] and r == 3:
        return ['clear', tp.choice(clocks)]
    if feat['stop'] and r == 4 and n_tempo:
        return ['stop', tp.draw(n_tempo)]
    if feat.get('cmdperiod') and r == 5:
        return ['cmdperiod']
    if inner and feat.get('busy') and r in (6, 7):
        # a slow task: it keeps running (and holding the library's lock)
        # while other clocks' deadlines pass
        return ['busy', tp.choice([0.02, 0.1, 0.3, 0.6])]
    # a scheduling
    t = tp.draw(n_tasks)
    if inner and t == self_task:
        t = (t + 1) % n_tasks
        if t == self_task:
            return ['nop']
    if feat['inf'] and tp.draw(6) == 0:
        d = 'inf'
    elif feat.get('huge') and tp.draw(5) == 0:
        # finite, but centuries away: the task just stays pending
        d = tp.choice([1e10, 9223372037.0, 1e15])
    else:
        d = tp.choice(DELTAS)
    return [tp.choice(['sched', 'sched', 'sched_abs']), t, d]


def shrink_candidates(case):
    """Smaller variants of a case, most aggressive first."""
    import copy
    # fewer actors
    for i in range(len(case['actors']) - 1, 0, -1):
        c = copy.deepcopy(case)
        del c['actors'][i]
        yield c
    # drop actor ops
    for i, ops in enumerate(case['actors']):
        for j in range(len(ops) - 1, -1, -1):
            c = copy.deepcopy(case)
            del c['actors'][i][j]
            yield c
    # drop responder ops / inner ops / script steps
    for i, ops in enumerate(case['responders']):
        for j in range(len(ops) - 1, -1, -1):
            if len(ops) > 1:
                c = copy.deepcopy(case)
                del c['responders'][i][j]
                yield c
    for i, t in enumerate(case['tasks']):
        for s in range(len(t['script']) - 1, -1, -1):
            st = t['script'][s]
            for j in range(len(st['ops']) - 1, -1, -1):
                c = copy.deepcopy(case)
                del c['tasks'][i]['script'][s]['ops'][j]
                yield c
            if len(t['script']) > 1:
                c = copy.deepcopy(case)
                del c['tasks'][i]['script'][s]
                yield c
            if st['ret'] is not None:
                c = copy.deepcopy(case)
                c['tasks'][i]['script'][s]['ret'] = None
                yield c
    # simpler knobs
    kn = case['knobs']
    for key, val in (('stall_pm', 0), ('cost', 0.0), ('lat', 0),
                     ('time_yield', False), ('policy', 'random'),
                     ('epoch', 'exact')):
        if kn.get(key) != val:
            c = copy.deepcopy(case)
            c['knobs'][key] = val
            yield c


# -------------------------------------------------------------- execution

class Model:
    """Shadow model of the clocks' pending sets, fed by the queue monitors
    and by the tasks' own records."""

    def __init__(self, w, viol, fault_free):
        self.w = w
        self.k = w.kernel
        self.viol = viol
        self.ff = fault_free
        self.tol = 1e-9 if w.knobs.get('epoch') != 'real' else 1e-6
        self.pending = {}       # clock name -> {task: (time, seq, t_add)}
        self.seq = 0
        self.fifo = {}          # thread idx -> list of [task, time, clockname]
        self.in_body = {}       # thread idx -> (task_id, time, clockname, logical secs)
        self.stale = {}         # clock name -> parks count at an own-thread map change
        self.call = {}          # thread idx -> dict describing a sched call
        self.expect = {}        # thread idx -> pending numeric-return check
        self.clockobj = {}
        self.clock_thread = {}  # clock name -> SimThreadState
        self.map_change = {}    # clock name -> kernel.now of last map change
        self.map_changes = {}   # clock name -> count
        self.stopping = set()
        self.cancelled = {}     # clock name -> set(task) cancelled by clear/stop
        self.taskid = {}        # task object -> id
        self.wakes = []         # (task id, clock, now, secs, beats)
        self.raises = 0
        self.stats = {}
        self.in_clear = {}      # thread idx -> clock name
        self.cleared = {}       # clock name -> tasks taken out of the queue
        #                         for a wake-up that a clear() then cancelled
        self.neg_tempo = set()

    def bump(self, k):
        self.stats[k] = self.stats.get(k, 0) + 1

    # -- time helpers
    def elapsed(self):
        return (self.k.epoch + self.k.now) - self.w.main._init_time

    def due_secs(self, cname, t):
        """Scheduled time -> elapsed seconds under the map in force now."""
        if cname.startswith('t'):
            c = self.clockobj[cname]
            return (t - c._base_beats) * c._beat_dur + c._base_seconds
        return t

    # -- queue events
    def on_add(self, cname, time, task):
        k = self.k
        me = k.current.idx
        self.seq += 1
        p = self.pending.setdefault(cname, {})
        for i, e in enumerate(self.fifo.get(me, [])):
            if e[0] is task and e[2] == cname and e[1] == time \
                    and me not in self.in_body:
                # popped and put back without being run (an implementation
                # may look at the head that way): it keeps its place among
                # the tasks scheduled for the same time
                del self.fifo[me][i]
                p[task] = e[4]
                self.bump('pop-put-back')
                return
        if task in p:
            self.bump('readd-pending')
        elif me in self.in_body:
            # scheduled again by a task that runs while this one is already
            # collected for its wake-up (AppClock takes every due task out
            # first): as for any pending task the new scheduling replaces
            # the old one, it is awakened once, at the new time
            for lst in self.fifo.values():
                for e in list(lst):
                    if e[0] is task and e[2] == cname and e[0] in self.taskid:
                        lst.remove(e)
                        self.cleared.setdefault(cname, []).append(task)
                        self.bump('resched-moves-collected-wakeup')
        p[task] = (time, self.seq, k.now)
        self.cancelled.get(cname, set()).discard(task)
        call = self.call.get(me)
        exp = self.expect.get(me)
        if call is not None and call['clock'] == cname \
                and call['task'] is task:
            call['added'] = call.get('added', 0) + 1
            call['stored'] = time
        elif exp is not None and exp['task'] is task \
                and exp['clock'] == cname and me not in self.in_body:
            # re-add after a numeric return
            self.expect.pop(me)
            if cname == 'app':
                lo = exp['t_ret'] + exp['r'] - self.tol
                hi = self.elapsed() + exp['r'] + self.tol
                if not (lo <= time <= hi):
                    self.viol.add(
                        'C08-5', 'app-resched-base',
                        f'AppClock re-scheduled at {time}, expected in '
                        f'[{lo}, {hi}]')
            else:
                want = exp['time'] + exp['r']
                if time != want and abs(time - want) > 1e-12 * max(
                        1.0, abs(want)):
                    self.viol.add(
                        'C08-5', f'{cname[0]}-resched-base',
                        f'numeric return {exp["r"]} of a task scheduled at '
                        f'{exp["time"]} re-scheduled it at {time}, expected '
                        f'{want}')
            self.bump('resched-checked')
        elif k.current.role == 'clock' and me not in self.in_body \
                and task in self.taskid and call is None and time != INF:
            # the clock's own loop queued a task that returned no number
            # (or raised): it would be awakened again without being
            # scheduled
            self.viol.add(
                'C08-1', f'{cname[0]}-requeued-without-return-value',
                f'{cname} thread re-scheduled task {self.taskid[task]} at '
                f'{time} although it returned no number')
        # sched ahead of a sleeping head?
        th = self.clock_thread.get(cname)
        if th is not None and th.state == K.COND and th.wake_at is not None:
            others = [v[0] for t, v in p.items() if t is not task]
            if others and time < min(others):
                self.bump('sched-ahead-of-sleeping-head')

    def on_remove(self, cname, task):
        p = self.pending.get(cname, {})
        p.pop(task, None)

    def on_qclear(self, cname):
        p = self.pending.get(cname, {})
        self.cancelled.setdefault(cname, set()).update(p.keys())
        if p:
            self.bump('clear-with-pending')
        p.clear()

    def on_pop(self, cname, time, task):
        k = self.k
        me = k.current.idx
        p = self.pending.setdefault(cname, {})
        if me in self.in_clear and self.in_clear[me] in (cname, '*'):
            # pops performed by clear(): cancellations
            p.pop(task, None)
            self.cancelled.setdefault(cname, set()).add(task)
            return
        self._flush_expect(me)
        ent = p.get(task)
        if ent is None:
            if task in self.cancelled.get(cname, ()):
                self.viol.add('C08-6', f'{cname[0]}-woken-after-cancel',
                              'a task cancelled by clear()/stop() was '
                              'popped for wake-up afterwards')
            else:
                self.viol.add('C08-1', f'{cname[0]}-pop-unknown',
                              'clock popped a task that is not pending in '
                              'the model (woken twice?)')
            return
        # What a pop means is only known when the task's body runs (a wake-up)
        # or the entry is put back untouched: the findings are provisional.
        found = []
        if task not in self.taskid:
            # a task of the library itself (message dispatch): its body is
            # not observed, the pop is all there is
            class _Now(list):
                def append(_, v):
                    self.viol.add(*v)
            found = _Now()
        # order: minimum (time, seq) among pending
        for t2, e2 in p.items():
            if t2 is not task and (e2[0], e2[1]) < (ent[0], ent[1]):
                found.append((
                    'C08-4', f'{cname[0]}-order',
                    f'task scheduled at {ent[0]} (seq {ent[1]}) woken while '
                    f'one scheduled at {e2[0]} (seq {e2[1]}) is pending'))
                break
        del p[task]
        prov = [task, time, cname, found, ent]
        self.fifo.setdefault(me, []).append(prov)
        if cname in self.neg_tempo:
            return
        # never early
        now_e = self.elapsed()
        due = self.due_secs(cname, time)
        scale = 1.0
        if cname.startswith('t'):
            scale = max(1.0, abs(self.clockobj[cname]._beat_dur))
        th = self.clock_thread.get(cname)
        stale = False
        if cname in self.stale:
            if th is not None and self.stale[cname] == th.parks:
                # the clock's own task changed the map during this batch:
                # the loop legitimately works with the beats it computed
                # before (same as the original implementation)
                stale = True
                self.bump('pop-in-stale-batch')
            else:
                del self.stale[cname]
        if now_e < due - self.tol * scale and not stale:
            found.append((
                'C08-2', f'{cname[0]}-early',
                f'task scheduled for {time} ({due} s) popped at elapsed '
                f'{now_e} s'))
        # exact lateness when fault-free
        if self.ff:
            t_ready = max(due, ent[2] - self._init_now(),
                          self.map_change.get(cname, -INF)
                          - self._init_now())
            if now_e > t_ready + 1e-9 * scale:
                found.append((
                    'C08-3b', f'{cname[0]}-late-fault-free',
                    f'fault-free run: task due at {due} s (added at '
                    f'{ent[2] - self._init_now()} s) popped at {now_e} s'))

    def _init_now(self):
        return self.w.main._init_time - self.k.epoch

    def _flush_expect(self, me):
        exp = self.expect.pop(me, None)
        if exp is not None and exp['clock'] not in self.stopping:
            self.viol.add(
                'C08-5', f'{exp["clock"][0]}-resched-missing',
                f'task returned {exp["r"]} but was not re-scheduled')

    def after_clear(self, cname):
        """clear() returned: wake-ups already taken out of the queue but not
        yet delivered (AppClock collects the due ones first) are pending
        things of that clock too, hence cancelled"""
        for lst in self.fifo.values():
            keep = []
            for e in lst:
                if e[2] == cname and e[0] in self.taskid:
                    self.cleared.setdefault(cname, []).append(e[0])
                    self.bump('clear-cancels-collected-wakeup')
                else:
                    keep.append(e)
            lst[:] = keep

    # -- task body records
    def body_enter(self, tid, task, cname):
        k = self.k
        me = k.current.idx
        f = self.fifo.get(me, [])
        found = None
        while f:
            e = f.pop(0)
            if e[0] is task:
                found = e
                break
            if e[0] in self.taskid:
                self.viol.add(
                    'C08-1', f'{e[2][0]}-popped-not-woken',
                    f'task {self.taskid[e[0]]} was popped but its body did '
                    f'not run before task {tid}')
        if found is None:
            if any(task is x for x in self.cleared.get(cname, [])):
                self.viol.add('C08-6', f'{cname[0]}-awakened-after-clear',
                              f'task {tid} was pending (taken out of the '
                              f'queue, not yet awakened) when its clock was '
                              f'cleared or it was scheduled again, and was '
                              f'still awakened for the old scheduling')
                return None
            self.viol.add('C08-1', f'{cname[0]}-woken-unscheduled',
                          f'task {tid} ran without a matching pop')
            return None
        for v in found[3]:
            self.viol.add(*v)
        stime = found[1]
        main = self.w.main
        secs = main.current_tt._seconds
        self.in_body[me] = (tid, stime, cname, secs)
        c = self.clockobj[cname]
        beats = None
        if cname == 'sys':
            if secs != stime:
                self.viol.add('C08-5', 's-logical-time',
                              f'task scheduled at {stime} sees logical '
                              f'time {secs}')
        elif cname.startswith('t') and cname not in self.neg_tempo:
            beats = c.beats
            if abs(beats - stime) > 1e-9 * max(1.0, abs(stime)):
                self.viol.add('C08-5', 't-logical-beats',
                              f'task scheduled at beat {stime} sees beats '
                              f'{beats}')
        self.wakes.append((tid, cname, k.now, secs, beats))
        return stime

    def body_exit(self, tid, task, cname, stime, ret):
        me = self.k.current.idx
        self.in_body.pop(me, None)
        if stime is None:
            return
        if isinstance(ret, (int, float)) and not isinstance(ret, bool):
            self.expect[me] = {'task': task, 'clock': cname, 'time': stime,
                               'r': ret, 't_ret': self.elapsed()}

    # -- quiescence invariant (3a)
    def quiescence(self, kernel):
        self.bump('quiescence-checks')
        init_now = self._init_now()
        for cname, th in self.clock_thread.items():
            if th.state == K.DONE or cname in self.neg_tempo:
                continue
            c = self.clockobj[cname]
            q = c._scheduler.queue if cname == 'app' else c._task_queue
            try:
                if q._orig_empty():
                    continue
                head = q._orig_peek()
            except KeyError:
                continue
            if th.state != K.COND:
                continue    # not parked in a wait: nothing to say
            if th.wake_at is None:
                self.viol.add(
                    'C08-3a', f'{cname[0]}-lost-wakeup',
                    f'{cname}: thread sleeps without timeout while a task '
                    f'scheduled at {head[0]} is pending')
                continue
            if th.wait_from is None:
                continue
            due = self.due_secs(cname, head[0]) + init_now   # kernel time
            wait_from = th.wait_from
            if cname == 'app':
                # AppClock computes its timeout from the time its tick
                # started (documented drift), not from a fresh reading
                wait_from = c._scheduler._seconds + init_now
            intended = wait_from + th.wait_timeout
            scale = 1.0
            if cname.startswith('t'):
                scale = max(1.0, abs(c._beat_dur))
            # (the library and this reconstruction round differently: a few
            # units in the last place of times centuries away are seconds)
            import math
            if intended > max(due, wait_from) + self.tol * scale + 1e-9 \
                    + 8 * math.ulp(max(abs(intended), abs(due))):
                self.viol.add(
                    'C08-3a', f'{cname[0]}-oversleep',
                    f'{cname}: thread intends to sleep until {intended} '
                    f'while the head task is due at {due} (kernel time)')


def run_case(case, tape, ctx):
    knobs = case['knobs']
    w = world.RtWorld(tape, knobs, seed=1).boot()
    k = w.kernel
    main = w.main
    viol = C.Violations()
    # (tasks that take time hold the library's lock meanwhile: other tasks
    # are legitimately late then, the exact-lateness oracle does not apply)
    has_busy = 'busy' in repr(case['tasks']) + repr(case['responders'])
    m = Model(w, viol, knobs.get('fault_free', False) and not has_busy)
    if case.get('scenario'):
        m.bump('scenario-' + case['scenario'])

    import sc3.base.clock as sclk
    import sc3.base.stream as sstm
    import sc3.base.functions as sfn
    import sc3.base.responders as srpd
    import sc3.base.systemactions as sac
    sac.CmdPeriod.free_servers = False      # no server in this world
    from sim import osc as simosc

    clocks = {'sys': sclk.SystemClock, 'app': sclk.AppClock}
    for i, tempo in enumerate(case['tempos']):
        clocks[f't{i}'] = sclk.TempoClock(tempo)
    m.clockobj = clocks
    for cname, c in clocks.items():
        q = c._scheduler.queue if cname == 'app' else c._task_queue
        q._orig_empty = q.empty
        q._orig_peek = q.peek
        C.QueueMonitor(q, cname, viol, m, m.stats)
        m.clock_thread[cname] = c._thread._st

    k.on_quiescence.append(m.quiescence)

    n_raises = [0]
    task_objs = []

    def do_ops(ops, actor):
        for op in ops:
            do_op(op, actor)

    def do_op(op, actor):
        kind = op[0]
        me = k.current.idx
        if kind == 'nop':
            return
        if kind in ('sleep', 'busy'):
            if kind == 'busy':
                m.bump('busy-task')
            k.sleep(op[1])
            return
        if kind in ('sched', 'sched_abs'):
            tdef = case['tasks'][op[1]]
            task = task_objs[op[1]]
            cname = tdef['clock']
            c = clocks[cname]
            delta = INF if op[2] == 'inf' else op[2]
            th = m.clock_thread[cname]
            if cname in m.stopping and th.state != K.DONE:
                return          # asynchronous stop in progress: not generated
            ctxt = m.in_body.get(me)
            call = {'clock': cname, 'task': task, 'delta': delta,
                    'entry': m.elapsed(), 'changes': m.map_changes.get(cname, 0)}
            m.call[me] = call
            try:
                if kind == 'sched' or cname == 'app':
                    c.sched(delta, task)
                else:
                    base = m.elapsed() if cname == 'sys' else \
                        c.secs2beats(m.elapsed())
                    call['abs'] = base + delta
                    c.sched_abs(base + delta, task)
            except sclk.ClockNotRunning:
                call['notrunning'] = True
            except AttributeError:
                # the asynchronous stop() of this TempoClock completed while
                # the call was blocked on the lock (the clock drops its
                # condition): outside what the property states
                m.call.pop(me, None)
                if cname not in m.stopping:
                    raise
                m.bump('sched-raced-with-stop')
                return
            finally:
                m.call.pop(me, None)
            call['exit'] = m.elapsed()
            check_call(call, kind, cname, ctxt)
            m.bump(f'sched-from-{actor}')
            return
        if kind in ('tempo', 'etempo', 'beats'):
            cname = f't{op[1]}'
            c = clocks.get(cname)
            if c is None or cname in m.stopping:
                return
            try:
                with main._main_lock:
                    # counted before and after: a base-time check that
                    # overlaps the change in any way sees a different count
                    m.map_changes[cname] = m.map_changes.get(cname, 0) + 1
                    if k.current is m.clock_thread[cname]:
                        m.stale[cname] = k.current.parks
                    if kind == 'tempo':
                        c.tempo = op[2]
                    elif kind == 'etempo':
                        c.etempo(op[2])
                    else:
                        c.beats = c.beats + op[2]
                    m.map_change[cname] = k.now
                    m.map_changes[cname] = m.map_changes.get(cname, 0) + 1
                    th = m.clock_thread[cname]
                    if th.state == K.COND or th.state == K.WANT:
                        m.bump('tempo-change-while-sleeping')
            except sclk.ClockNotRunning:
                pass
            return
        if kind == 'clear':
            cname = op[1]
            c = clocks.get(cname)
            if c is None or cname in m.stopping:
                return
            with main._main_lock:
                m.in_clear[me] = cname
                try:
                    c.clear()
                finally:
                    m.in_clear.pop(me, None)
                p = m.pending.get(cname, {})
                q = c._scheduler.queue if cname == 'app' else c._task_queue
                # (what the library itself keeps on a clock - received
                # messages waiting for dispatch - is not a scheduled task)
                mine = {id(t) for t in m.taskid}
                left = [t for t in p if id(t) in mine]
                inq = [e for e in q if id(e[1]) in mine]
                if left or inq:
                    viol.add('C08-6', f'{cname[0]}-clear-left-pending',
                             f'{cname}.clear() left {len(left)} model-pending '
                             f'task(s), {len(inq)} in the queue')
                    m.cancelled.setdefault(cname, set()).update(left)
                    for t in left:
                        p.pop(t, None)
                m.after_clear(cname)
            return
        if kind == 'cmdperiod':
            # clears every clock's queue and stops the (non permanent)
            # TempoClocks: nothing is pending any more when it returns
            with main._main_lock:
                # (read under the lock: another thread's CmdPeriod may have
                # stopped a TempoClock while this one waited for it)
                live = [cn for cn in clocks if cn not in m.stopping]
                m.in_clear[me] = '*'
                try:
                    sac.CmdPeriod.run()
                finally:
                    m.in_clear.pop(me, None)
                for cn in live:
                    c = clocks[cn]
                    p = m.pending.get(cn, {})
                    q = c._scheduler.queue if cn == 'app' else c._task_queue
                    mine = {id(t) for t in m.taskid}
                    left = [t for t in p if id(t) in mine]
                    inq = [e for e in q if id(e[1]) in mine]
                    if left or inq:
                        viol.add('C08-6', f'{cn[0]}-cmdperiod-left-pending',
                                 f'CmdPeriod.run() left {len(left)} '
                                 f'model-pending task(s) on {cn}, '
                                 f'{len(inq)} in the queue')
                        m.cancelled.setdefault(cn, set()).update(left)
                        for t in left:
                            p.pop(t, None)
                    m.after_clear(cn)
                    if cn.startswith('t'):
                        m.stopping.add(cn)
            m.bump('cmdperiod')
            return
        if kind == 'stop':
            cname = f't{op[1]}'
            c = clocks.get(cname)
            if c is None:
                return
            m.stopping.add(cname)
            c.stop()
            m.bump('tempoclock-stop')
            return
        if kind == 'inject':
            dgram = simosc.encode_message(f'/c08/r{op[1]}', [])
            w.net.send(('127.0.0.1', 7000 + actor_port(actor)),
                       ('127.0.0.1', main._osc_interface.port), dgram,
                       faults=False)
            m.bump('inject')
            return
        raise ValueError(op)

    def actor_port(actor):
        return {'driver': 0}.get(actor, 1)

    def check_call(call, kind, cname, ctxt):
        delta = call['delta']
        if call.get('notrunning'):
            th = m.clock_thread[cname]
            if th.state != K.DONE:
                viol.add('C08-6', 't-notrunning-while-alive',
                         'sched raised ClockNotRunning on a running clock')
            return
        if delta == INF:
            if call.get('added'):
                viol.add('C08-1', f'{cname[0]}-inf-added',
                         'a task scheduled with infinite delay was queued')
            return
        if call.get('added', 0) != 1:
            th = m.clock_thread[cname]
            if th.state == K.DONE:
                viol.add('C08-6', 't-sched-on-stopped',
                         'sched on a stopped TempoClock did not raise')
                return
            viol.add('C08-1', f'{cname[0]}-sched-not-queued',
                     f'sched call queued the task {call.get("added", 0)} '
                     'times')
            return
        stored = call['stored']
        tol = m.tol
        if kind == 'sched_abs' and cname != 'app':
            if stored != call['abs']:
                viol.add('C08-1', f'{cname[0]}-sched-abs-time',
                         f'sched_abs({call["abs"]}) stored {stored}')
            return
        if ctxt is not None:
            tid, stime, cn, cur_secs = ctxt
            if cn == 'app' and cname != 'app':
                # AppClock keeps no logical time (documented); which base a
                # task running on it hands to another clock is unspecified,
                # but it lies between the task's own scheduled time and the
                # physical present: later than that, the new task would wait
                # for an unrelated deadline
                if cname.startswith('t'):
                    if call['changes'] != m.map_changes.get(cname, 0) \
                            or cname in m.neg_tempo:
                        return
                    c = clocks[cname]
                    if c._tempo <= 0:
                        return
                    conv = lambda x: (x - c._base_seconds) * c._tempo \
                        + c._base_beats
                    sc = max(1.0, abs(c._tempo))
                else:
                    conv = lambda x: x
                    sc = 1.0
                lo, hi = conv(stime) + delta, conv(call['exit']) + delta
                if not (lo - tol * sc <= stored <= hi + tol * sc):
                    viol.add(
                        'C08-5', f'{cname[0]}-sched-base-from-app-task',
                        f'sched({delta}) on {cname} from an AppClock task '
                        f'(scheduled at {stime}, call exit {call["exit"]}) '
                        f'stored {stored}, expected in [{lo}, {hi}]')
                m.bump('sched-base-checked-app-task')
                return
            if cname == 'app':
                pass            # physical window below
            else:
                if cname == 'sys':
                    want = cur_secs + delta
                else:
                    if call['changes'] != m.map_changes.get(cname, 0):
                        return
                    c = clocks[cname]
                    want = (cur_secs - c._base_seconds) * c._tempo \
                        + c._base_beats + delta
                if abs(stored - want) > 1e-9 * max(1.0, abs(want)):
                    viol.add(
                        'C08-5', f'{cname[0]}-sched-base-in-task',
                        f'sched({delta}) from a task at logical {cur_secs} s '
                        f'stored {stored}, expected {want}')
                m.bump('sched-base-checked-logical')
                return
        # physical window
        if cname.startswith('t'):
            if call['changes'] != m.map_changes.get(cname, 0) \
                    or cname in m.neg_tempo:
                return
            c = clocks[cname]
            conv = lambda s: (s - c._base_seconds) * c._tempo + c._base_beats
            lo, hi = conv(call['entry']) + delta, conv(call['exit']) + delta
            sc = max(1.0, abs(c._tempo))
        else:
            lo, hi = call['entry'] + delta, call['exit'] + delta
            sc = 1.0
        if k.current.role == 'clock' and ctxt is None:
            return   # responder callback: logical base is the dispatch task's
        if not (lo - tol * sc <= stored <= hi + tol * sc):
            viol.add('C08-5', f'{cname[0]}-sched-base-physical',
                     f'sched({delta}) outside tasks stored {stored}, '
                     f'expected in [{lo}, {hi}] (thread {k.current.name}, '
                     f'call entry {call["entry"]}, exit {call["exit"]})')
        m.bump('sched-base-checked-physical')

    # ---- tasks
    class TaskError(Exception):
        pass

    def make_task(tid, tdef):
        cname = tdef['clock']
        script = tdef['script']
        state = {'step': 0}
        holder = []

        def step_body():
            task = holder[0]
            stime = m.body_enter(tid, task, cname)
            i = state['step']
            state['step'] += 1
            ret = None
            if i < len(script):
                st = script[i]
                try:
                    do_ops(st['ops'], f'task-{cname[0]}')
                finally:
                    pass
                ret = st['ret']
            if ret == 'inf':
                m.body_exit(tid, task, cname, stime, None)
                m.bump('task-returned-inf')
                return INF
            if ret == 'raise':
                n_raises[0] += 1
                m.body_exit(tid, task, cname, stime, None)
                m.bump('task-raised')
                raise TaskError(f'task {tid}')
            m.body_exit(tid, task, cname, stime, ret)
            return ret

        if tdef['kind'] == 'obj':
            class Awakable:
                def __awake__(self, clock):
                    return step_body()

                def __repr__(self):
                    if tid % 2:
                        # (an object is free to have no printable form: the
                        # clock names the failed task some other way)
                        raise RuntimeError('no repr')
                    return f'task{tid}'
            task = Awakable()
        elif tdef['kind'] == 'func':
            def func():
                return step_body()
            func.__qualname__ = f'task{tid}'
            task = sfn.Function(func)
        else:
            def rfunc():
                while True:
                    yield step_body()
            rfunc.__qualname__ = f'task{tid}'
            task = sstm.Routine(rfunc)
        holder.append(task)
        m.taskid[task] = tid
        return task

    for tid, tdef in enumerate(case['tasks']):
        task_objs.append(make_task(tid, tdef))

    # ---- responders
    resp_objs = []
    for i, ops in enumerate(case['responders']):
        def mk(ops=ops):
            def cb(msg, time, addr, port):
                me = k.current.idx
                # context: the dispatch task popped last on this thread
                f = m.fifo.get(me, [])
                prev = m.in_body.get(me)
                if f:
                    e = f[-1]
                    m.in_body[me] = (None, e[1], e[2], e[1])
                try:
                    do_ops(ops, 'responder')
                finally:
                    if prev is None:
                        m.in_body.pop(me, None)
                    else:
                        m.in_body[me] = prev
                m.bump('responder-fired')
            return cb
        resp_objs.append(srpd.OscFunc(mk(), f'/c08/r{i}'))

    # clock threads get a role (used by check_call)
    for cname, th in m.clock_thread.items():
        th.role = 'clock'

    # ---- finalisation (may be called from any thread through on_finish)
    done = [False]

    def finalize(outcome):
        if done[0]:
            return None
        done[0] = True
        k.freeze()
        if outcome == 'ok' or outcome == 'deadlock':
            end_checks(outcome)
        nontriv = k.contended > 0 and m.stats.get('q-pop', 0) > 0
        probes = dict(m.stats)
        return C.result(k, viol, outcome, nontriv, extra_probes=probes,
                        sample={'tempos': case['tempos'],
                                'tasks': len(case['tasks']),
                                'actors': case['actors'][:2],
                                'wakes': m.wakes[:6]},
                        features=[f for f in ('fault_free',)
                                  if knobs.get('fault_free')])

    def end_checks(outcome):
        now_e = m.elapsed()
        for cname, p in m.pending.items():
            th = m.clock_thread[cname]
            if th.state == K.DONE or cname in m.stopping \
                    or cname in m.neg_tempo:
                continue
            for task, (t, seq, t_add) in p.items():
                due = m.due_secs(cname, t)
                if due < now_e - 1e-6:
                    viol.add(
                        'C08-1', f'{cname[0]}-never-woken',
                        f'{cname}: task scheduled for {t} ({due} s) still '
                        f'pending at the end of the run ({now_e} s)')
        for me in list(m.expect):
            m._flush_expect(me)
        # errors: one ERROR record per raising task, clock threads alive
        errs = [r for r in w.logh.records
                if r[0] == 'ERROR' and 'scheduled on' in r[2]]
        if len(errs) != n_raises[0]:
            viol.add('C08-7', 'error-log-count',
                     f'{n_raises[0]} task(s) raised, {len(errs)} ERROR '
                     'record(s) logged')
        for cname, th in m.clock_thread.items():
            if th.exc is not None:
                viol.add('C08-7', f'{cname[0]}-thread-died',
                         f'{cname} thread died with {th.exc!r}')
            elif th.state == K.DONE and cname not in m.stopping:
                viol.add('C08-7', f'{cname[0]}-thread-exited',
                         f'{cname} thread exited')
        udp = w.thread_by_name('OscUdpInterface')
        if udp is not None and (udp.exc is not None or udp.state == K.DONE):
            viol.add('C08-7', 'udp-thread-died', repr(udp.exc))
        if outcome == 'deadlock':
            viol.add('C08-7', 'deadlock',
                     'all threads parked forever with the driver blocked')

    k.on_finish = lambda oc: ctx.emit(finalize(oc))

    # ---- run the program
    user_threads = []
    for a, ops in enumerate(case['actors'][1:], 1):
        t = w.thr.Thread(target=lambda ops=ops, a=a: do_ops(ops, f'user{a}'),
                         name=f'user{a}')
        user_threads.append(t)
    for t in user_threads:
        t.start()
    do_ops(case['actors'][0], 'driver')
    for t in user_threads:
        t.join()
    k.wait_idle(k.now + 3600.0)
    return finalize('ok')


QUICK_RUNS = 4000
THOROUGH_SECONDS = 480
