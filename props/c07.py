"""C07 - bundles are stamped with logical time plus latency; scores are
ordered.  Programs of routines (and the main thread) sending messages and
nested bundles, run in RT under faults (datagrams captured at the socket seam
and decoded by the independent codec, optionally looped back to responders)
and in NRT (score list and raw form against a model)."""

import struct

from sim import subrun as S
from sim import osc
from . import common as C
from . import rprog
from . import rworlds as W

ID = 'C07'
QUICK_RUNS = 700
THOROUGH_SECONDS = 480
TICK = 2.0 ** -32
NTP = 2208988800

COMPONENTS = {
    'real': 'sc3 OscUdpInterface/OscNrtInterface, OscScore, NetAddr, _osclib '
            'encoder, clocks, routines, responders (loop-back)',
    'stub': 'threading primitives, time, socket/UDP (RT); independent OSC '
            'decoder as the wire oracle'}


def gen_case(tp, tier):
    feat = {'tempo_clocks': True, 'sends': True, 'bind': True, 'embed': True,
            'cmsg': True,
            'busy': True,
            'inf_wait': True,
            'odd_deltas': tp.draw(3) == 0}
    prog = rprog.gen(tp, feat, tier)
    # main-thread sends (outside any routine), interleaved with sleeps
    drv = []
    if tp.draw(2) == 0:
        for _ in range(1 + tp.draw(4)):
            drv.append(['sleep', tp.choice([0, 0.01, 0.25, 0.5, 1.0])])
            if tp.draw(3) == 0:
                drv.append(['msg', tp.draw(100)])
            else:
                drv.append(['bundle', rprog._gen_lat(tp),
                            rprog._gen_els(tp, 0)])
    kn = C.gen_knobs(tp, fault_free_pm=200)
    # every message payload is unique so that a received message is
    # attributable to exactly one send
    ctr = [0]

    def renum(els):
        for e in els:
            if e[0] == 'M':
                ctr[0] += 1
                e[1] = ctr[0]
            else:
                renum(e[2])

    for r in prog['routines']:
        for st in r['body']:
            if st[0] == 'msg':
                ctr[0] += 1
                st[1] = ctr[0]
                if len(st) > 2:
                    renum(st[2][2])
            elif st[0] == 'bundle':
                renum(st[2])
    for st in drv:
        if st[0] == 'msg':
            ctr[0] += 1
            st[1] = ctr[0]
        elif st[0] == 'bundle':
            renum(st[2])
    # now and then the very same bundle is sent twice at one logical time
    # (same timetag, same bytes): both must reach the wire / the score
    for r in prog['routines']:
        sends = [i for i, st in enumerate(r['body'])
                 if st[0] in ('msg', 'bundle')]
        if sends and tp.draw(4) == 0:
            i = tp.choice(sends)
            import copy
            r['body'].insert(i + 1, copy.deepcopy(r['body'][i]))
    return {'prog': prog, 'driver': drv, 'knobs': kn,
            'loopback': tp.draw(2) == 0, 'tail': tp.choice([0, 0, 0.5, 3])}


def shrink_candidates(case):
    import copy
    for p in rprog.shrink_candidates(case['prog']):
        c = copy.deepcopy(case)
        c['prog'] = p
        yield c
    for j in range(len(case['driver']) - 1, -1, -1):
        c = copy.deepcopy(case)
        del c['driver'][j]
        yield c
    if case['loopback']:
        c = copy.deepcopy(case)
        c['loopback'] = False
        yield c


# ---- expectations ---------------------------------------------------

def immediate(lat):
    return lat is None or lat < 0


def expect_raise(lat, els):
    """-> True / False / None (unspecified) for a bundle (lat, els)."""
    res = False
    for e in els:
        if e[0] != 'B':
            continue
        sub = e[1]
        if lat is None:
            r = False
        elif sub is None:
            r = True if lat >= 0 else None
        else:
            r = lat > sub
        if r is None and res is False:
            res = None
        elif r:
            return True
        inner = expect_raise(sub, e[2])
        if inner:
            return True
        if inner is None and res is False:
            res = None
    return res


def has_sub(els):
    return any(e[0] == 'B' for e in els)


def run_rt(case, tape, emit):
    """RT world: program + main-thread sends."""
    from sim import world
    import hashlib
    prog = case['prog']
    w = world.RtWorld(tape, dict(case['knobs']), seed=7).boot()
    k = w.kernel
    main = w.main
    loop = case['loopback']
    target = ('127.0.0.1', main._osc_interface.port) if loop \
        else ('127.0.0.1', 57110)
    it = rprog.Interp(prog, main, 'rt', kernel=k, net=w.net, target=target)
    recvd = []
    if loop:
        import sc3.base.responders as srpd

        def cb(msg, time, addr, port):
            recvd.append({'msg': list(msg), 'time': time, 'now': k.now})
        keep = [srpd.OscFunc(cb, '/b'), srpd.OscFunc(cb, '/m')]
    done = [False]

    def finalize(outcome):
        if done[0]:
            return None
        done[0] = True
        k.freeze()
        import sc3.base.clock as sclk
        return {'outcome': outcome, 'trace': it.trace, 'recvd': recvd,
                'recv_log': [(t, d.hex()) for t, port, d in w.net.recv_log
                             if port == main._osc_interface.port]
                if loop else [],
                'errors': [r[:3] for r in w.error_logs()],
                'init_time': main._init_time, 'epoch': k.epoch,
                'osc_offset': sclk.SystemClock._elapsed_osc_offset,
                'k': W.kstats(k)}

    k.on_finish = lambda oc: emit(finalize(oc))
    it.start_root()
    for op in case['driver']:
        if op[0] == 'sleep':
            k.sleep(op[1])
        elif op[0] == 'msg':
            it.send('main', 'msg', None, [['M', op[1]]],
                    lambda: it.addr.send_msg('/m', -1, op[1]))
        else:
            els = [rprog.mk_el(e, -1) for e in op[2]]
            it.send('main', 'bundle', op[1], op[2],
                    lambda: it.addr.send_bundle(op[1], *els))
    k.wait_idle(k.now + 3600.0)
    return finalize('ok')


def run_nrt(case, tape, emit):
    from sim import world
    prog = case['prog']
    w = world.NrtWorld(seed=7).boot()
    main = w.main
    it = rprog.Interp(prog, main, 'nrt')
    it.start_root()
    # main-thread sends in NRT happen before process(), at time 0 (absolute)
    for op in case['driver']:
        if op[0] == 'msg':
            it.send('main', 'msg', None, [['M', op[1]]],
                    lambda: it.addr.send_msg('/m', -1, op[1]))
        elif op[0] == 'bundle':
            els = [rprog.mk_el(e, -1) for e in op[2]]
            it.send('main', 'bundle', op[1], op[2],
                    lambda: it.addr.send_bundle(op[1], *els))
    try:
        score = main.process(case['tail'])
    except Exception as e:
        return W.nrt_failed(e, it.trace, w)
    return {'outcome': 'ok', 'trace': it.trace, 'score': score.list,
            'raw': bytes(score.raw).hex(), 'elapsed': main.elapsed_time(),
            'errors': [r[:3] for r in w.error_logs()]}


# ---- wire checks ------------------------------------------------------

def tag_of(secs, offset):
    return int(secs * 2.0 ** 32) + offset


def check_bundle_pkt(pkt, t, lat, els, rid, offset, viol, where, stats):
    """Decoded bundle vs the DSL elements; timetags from the same instant t."""
    if not isinstance(pkt, osc.Bundle):
        viol.add('C07-1', f'{where}-not-a-bundle', f'{where}: {pkt!r}')
        return
    if immediate(lat):
        if pkt.timetag != 1:
            viol.add('C07-1', f'{where}-immediate',
                     f'{where}: latency {lat} must give timetag 1, got '
                     f'{pkt.timetag}')
    else:
        want = tag_of(t + lat, offset)
        if abs(pkt.timetag - want) > 2:
            viol.add(
                'C07-1' if where.startswith('rt-r') else 'C07-2',
                f'{where}-timetag',
                f'{where}: timetag {pkt.timetag} is '
                f'{(pkt.timetag - want) * TICK:+.9f} s away from logical '
                f'time {t} + latency {lat}')
    stats['bundles-checked'] = stats.get('bundles-checked', 0) + 1
    if not immediate(lat) and (t + lat) % 1.0 > 1 - 2.0 ** -33:
        k = 'timetag-fraction-rounds-up-' + \
            ('odd' if int(t + lat) % 2 else 'even') + '-second'
        stats[k] = stats.get(k, 0) + 1
    if len(pkt.elements) != len(els):
        viol.add('C07-3', f'{where}-element-count',
                 f'{where}: {len(pkt.elements)} elements on the wire, '
                 f'{len(els)} sent')
        return
    for e, p in zip(els, pkt.elements):
        if e[0] == 'M':
            if not isinstance(p, osc.Msg) or p.aslist() != ['/b', rid, e[1]]:
                viol.add('C07-3', f'{where}-element-content',
                         f'{where}: element {p!r}, sent {["/b", rid, e[1]]}')
        else:
            stats['nested-checked'] = stats.get('nested-checked', 0) + 1
            check_bundle_pkt(p, t, e[1], e[2], rid, offset, viol,
                             where + '-sub', stats)


def check_rt(case, res, viol, stats):
    if res['errors']:
        viol.add('C07-1', 'rt-error-logged', str(res['errors'][0]))
    offset = res['osc_offset']
    init_elapsed0 = res['init_time']           # epoch + now0
    # the offset itself: NTP time of library start, to 1 us
    if abs(offset * TICK - (init_elapsed0 + NTP)) > 1e-6:
        viol.add('C07-1', 'osc-offset',
                 f'OSC offset {offset * TICK} s vs NTP time of start '
                 f'{init_elapsed0 + NTP}')
    init_now = res['init_time'] - res['epoch']
    tol_phys = 1e-6
    sent = []
    for e in res['trace']:
        if e['ev'] != 'send':
            continue
        inr = e['r'] != 'main'     # who sends, not what the library believes
        rid = e['r'] if inr else -1
        where = f'rt-r' if inr else 'rt-main'
        if e['in_routine'] != inr:
            stats['main-send-while-routine-runs'] = stats.get(
                'main-send-while-routine-runs', 0) + 1
        t = e['secs']
        dg = [bytes.fromhex(x) for x in e['dgrams']]
        if e['kind'] == 'msg' and e.get('nested') is not None and \
                expect_raise(e['nested'][1], e['nested'][2]) is not False:
            er = expect_raise(e['nested'][1], e['nested'][2])
            if er and (e['raised'] != 'ValueError' or dg):
                viol.add('C07-3', f'{where}-subtime-not-refused',
                         f'message with a completion bundle whose nested '
                         f'bundle precedes it: raised {e["raised"]}, '
                         f'{len(dg)} datagram(s) sent')
            continue
        if e['kind'] == 'msg':
            if e['raised'] or len(dg) != 1:
                viol.add('C07-1', f'{where}-msg-send',
                         f'send_msg raised {e["raised"]} / {len(dg)} dgrams')
                continue
            pkt, err = osc.try_decode(dg[0])
            if e.get('nested') is not None:
                # the last argument is a bundle: it travels as a blob and is
                # stamped like a bundle sent at that point of the routine
                nst = e['nested']
                lst = pkt.aslist() if isinstance(pkt, osc.Msg) else []
                if err or lst[:3] != ['/m', rid, e['els'][0][1]] \
                        or len(lst) != 4 or not isinstance(lst[3], bytes):
                    viol.add('C07-3', f'{where}-msg-content',
                             f'message on the wire: {pkt!r} {err}')
                    continue
                sub, err2 = osc.try_decode(lst[3])
                if err2 or not isinstance(sub, osc.Bundle):
                    viol.add('C07-3', f'{where}-completion-undecodable',
                             f'{err2} {sub!r}')
                elif inr and expect_raise(nst[1], nst[2]) is False:
                    check_bundle_pkt(sub, t, nst[1], nst[2], rid, offset,
                                     viol, where + '-completion', stats)
                    stats['completion-bundles-checked'] = stats.get(
                        'completion-bundles-checked', 0) + 1
                sent.append(('m', rid, e['els'][0][1], None, e))
                continue
            if err or not isinstance(pkt, osc.Msg) or \
                    pkt.aslist() != ['/m', rid, e['els'][0][1]]:
                viol.add('C07-3', f'{where}-msg-content',
                         f'message on the wire: {pkt!r} {err}')
            sent.append(('m', rid, e['els'][0][1], None, e))
            continue
        er = expect_raise(e['lat'], e['els'])
        if er is None:
            stats['subtime-unspecified'] = stats.get(
                'subtime-unspecified', 0) + 1
            continue
        if er:
            stats['subtime-refused'] = stats.get('subtime-refused', 0) + 1
            if e['raised'] != 'ValueError' or dg:
                viol.add('C07-3', f'{where}-subtime-not-refused',
                         f'bundle with latency {e["lat"]} and a nested '
                         f'bundle that precedes it: raised {e["raised"]}, '
                         f'{len(dg)} datagram(s) sent')
            continue
        if e['raised'] or len(dg) != 1:
            viol.add('C07-3', f'{where}-bundle-send',
                     f'valid bundle (lat {e["lat"]}): raised '
                     f'{e["raised"]}, {len(dg)} datagram(s)')
            continue
        pkt, err = osc.try_decode(dg[0])
        if err:
            viol.add('C07-3', f'{where}-undecodable', err)
            continue
        if inr:
            check_bundle_pkt(pkt, t, e['lat'], e['els'], rid, offset, viol,
                             where, stats)
        else:
            # outside routines: "current time" is physical: an interval
            stats['main-thread-bundles'] = stats.get(
                'main-thread-bundles', 0) + 1
            lo = e['now0'] - init_now
            hi = e['now1'] - init_now
            if immediate(e['lat']):
                if pkt.timetag != 1:
                    viol.add('C07-2', 'rt-main-immediate',
                             f'latency {e["lat"]} -> timetag {pkt.timetag}')
            else:
                tsecs = (pkt.timetag - offset) * TICK - e['lat']
                if not (lo - tol_phys <= tsecs <= hi + tol_phys):
                    viol.add(
                        'C07-2', 'rt-main-timetag',
                        f'bundle sent by the main thread between elapsed '
                        f'{lo} and {hi} with latency {e["lat"]} is stamped '
                        f'{tsecs} + latency')
                # sub-bundles: same instant
                base = (pkt.timetag - offset) * TICK - e['lat']
                check_subs_same_instant(pkt, e['els'], base, offset, viol,
                                        stats)
        sent.append(('b', rid, e['els'], e['lat'], e))
    # loop-back: time handed to responders
    if case['loopback']:
        rec = res['recvd']
        flat = []
        for kind, rid, els, lat, e in sent:
            if kind == 'm':
                flat.append((['/m', rid, els], None, e))
            else:
                flat.extend(flat_msgs(els, lat, rid, e))
        stats['loopback-msgs'] = stats.get('loopback-msgs', 0) + len(rec)
        if len(rec) != len(flat):
            viol.add('C07-4', 'loopback-count',
                     f'{len(flat)} messages sent to the library port, '
                     f'{len(rec)} responder calls')
        else:
            # when the receive thread took each message off its socket
            arrived = {}
            for t, hexd in res.get('recv_log', []):
                pkt, err = osc.try_decode(bytes.fromhex(hexd))
                if err is None:
                    for _, mm in osc.flatten(pkt):
                        arrived.setdefault(repr(mm.aslist()), []).append(t)
            kn = case['knobs']
            steady = not kn.get('stall_pm') and not kn.get('line_mean')
            pool = list(flat)
            for r in rec:
                hit = None
                for i, (m, lat, e) in enumerate(pool):
                    if m == r['msg'] or (e.get('nested') is not None
                                         and m == r['msg'][:3]):
                        hit = i
                        break
                if hit is None:
                    viol.add('C07-4', 'loopback-content',
                             f'responder got {r["msg"]} which was not sent')
                    continue
                m, lat, e = pool.pop(hit)
                if lat is not None and not immediate(lat) \
                        and e['r'] != 'main':
                    want = e['secs'] + lat
                    if abs(r['time'] - want) > 1e-9:
                        viol.add('C07-4', 'loopback-time',
                                 f'responder time {r["time"]} for a bundle '
                                 f'sent at logical {e["secs"]} + {lat}')
                elif lat is None or immediate(lat):
                    lo = e['now0'] - init_now
                    hi = r['now'] - init_now
                    if not (lo - tol_phys <= r['time'] <= hi + tol_phys):
                        viol.add('C07-4', 'loopback-time-immediate',
                                 f'responder time {r["time"]} for an '
                                 f'immediate message sent at {lo}, '
                                 f'dispatched by {hi}')
                    # it is the arrival instant: what the receive thread
                    # read when it took the datagram, not when SystemClock
                    # got round to dispatching it (without stalls injected
                    # into the receive thread the two reads coincide)
                    tas = arrived.get(repr(r['msg']))
                    if steady and tas:
                        stats['arrival-time-checked'] = stats.get(
                            'arrival-time-checked', 0) + 1
                        # (the same message may have been sent twice)
                        if not any(ta - init_now - 1e-6 <= r['time']
                                   <= ta - init_now + 1e-3 for ta in tas):
                            viol.add(
                                'C07-4', 'loopback-time-not-arrival',
                                f'responder time {r["time"]} for an '
                                f'immediate message that the receive thread '
                                f'took at {[ta - init_now for ta in tas]} '
                                f'(dispatched at {hi})')


def check_subs_same_instant(pkt, els, base, offset, viol, stats):
    for e, p in zip(els, pkt.elements):
        if e[0] == 'B' and isinstance(p, osc.Bundle):
            if not immediate(e[1]):
                want = tag_of(base + e[1], offset)
                if abs(p.timetag - want) > 4:
                    viol.add('C07-3', 'rt-main-sub-instant',
                             f'nested bundle stamped '
                             f'{(p.timetag - want) * TICK:+.9f} s away from '
                             f'the parent\'s send instant')
            stats['nested-checked'] = stats.get('nested-checked', 0) + 1
            check_subs_same_instant(p, e[2], base, offset, viol, stats)


def flat_msgs(els, lat, rid, e):
    out = []
    for el in els:
        if el[0] == 'M':
            out.append((['/b', rid, el[1]], lat if lat is not None else -1, e))
        else:
            out.extend(flat_msgs(el[2], el[1], rid, e))
    return out


# ---- NRT score ---------------------------------------------------------

def nrt_time(t, lat):
    return t + (0.0 if immediate(lat) else lat)


def nrt_bundle(t, lat, els, rid):
    out = [nrt_time(t, lat)]
    for e in els:
        if e[0] == 'M':
            out.append(['/b', rid, e[1]])
        else:
            out.append(nrt_bundle(t, e[1], e[2], rid))
    return out


def encode_nrt(b):
    """Independent encoding of a score bundle [time, el...] (time absolute)."""
    def rel(x, base):
        # a bundle given as an argument of a message: times relative to the
        # instant the message was sent
        t = base if x[0] is None or x[0] < 0 else base + x[0]
        return [t] + [rel(y, base) if not isinstance(y[0], str) else y
                      for y in x[1:]]
    els = []
    for e in b[1:]:
        if isinstance(e[0], str):
            args = [encode_nrt(rel(a, b[0])) if isinstance(a, list) else a
                    for a in e[1:]]
            els.append(osc.encode_message(e[0], args))
        else:
            els.append(encode_nrt(e))
    return osc.encode_bundle(int(b[0] * 2.0 ** 32), els)


def check_nrt(case, res, viol, stats, cross_tie):
    if res['errors']:
        viol.add('C07-5', 'nrt-error-logged', str(res['errors'][0]))
    exp = [[0.0, ['/g_new', 1, 0, 0]]]
    order = 0
    items = [(0.0, order, exp[0])]
    for e in res['trace']:
        if e['ev'] != 'send':
            continue
        inr = e['r'] != 'main'
        rid = e['r'] if inr else -1
        t = e['secs'] if inr else 0.0
        if e['kind'] == 'msg' and e.get('nested') is not None:
            nst = e['nested']
            er = expect_raise(nst[1], nst[2])
            if er is None or e['raised']:
                if er is False:
                    viol.add('C07-5', 'nrt-message-refused',
                             f'NRT: message with a valid completion bundle '
                             f'raised {e["raised"]}')
                continue
            if er:
                viol.add('C07-5', 'nrt-subtime-not-refused',
                         f'NRT: completion bundle whose nested bundle '
                         f'precedes it was accepted')
                continue
            # the list keeps the bundle as it was given, the binary form
            # stamps it from the send instant (see encode_nrt)
            b = [t, ['/m', rid, e['els'][0][1], rprog.mk_el(nst, rid)]]
        elif e['kind'] == 'msg':
            b = [t, ['/m', rid, e['els'][0][1]]]
        else:
            er = expect_raise(e['lat'], e['els'])
            if er is None:
                if e['raised']:
                    continue
            elif er:
                if e['raised'] != 'ValueError':
                    viol.add('C07-5', 'nrt-subtime-not-refused',
                             f'NRT: nested bundle preceding its parent '
                             f'(lat {e["lat"]}) was accepted')
                continue
            if e['raised']:
                viol.add('C07-5', 'nrt-bundle-refused',
                         f'NRT: valid bundle raised {e["raised"]}')
                continue
            b = nrt_bundle(t, e['lat'], e['els'], rid)
        order += 1
        items.append((b[0], order, b))
    items.sort(key=lambda x: (x[0], x[1]))
    want = [b for _, _, b in items]
    last = res['elapsed']
    got = res['score']
    stats['score-entries'] = stats.get('score-entries', 0) + len(got)
    marker = ['/c_set', 0, 0]
    latest = max(b[0] for b in want)
    if not got or got[-1][1:] != [marker]:
        viol.add('C07-5', 'nrt-tail-marker',
                 f'score ends with {got[-1] if got else None}, not with the '
                 f'tail marker (last scheduled instant {last}, tail '
                 f'{case["tail"]})')
        body = [b for b in got if b[1:] != [marker]]
    else:
        mt = got[-1][0]
        lo = max(last + case['tail'], latest)
        hi = max(last, latest) + case['tail']
        if not (lo - 1e-9 <= mt <= hi + 1e-9):
            viol.add('C07-5', 'nrt-tail-time',
                     f'tail marker at {mt}; last scheduled instant {last}, '
                     f'latest bundle {latest}, tail {case["tail"]}')
        body = got[:-1]
        if latest > last + case['tail']:
            stats['bundle-beyond-tail'] = 1
    if body != want:
        viol.add('C07-5', 'nrt-score-list',
                 f'score list differs from the model: {first_diff(body, want)}')
    # time order, send order within equal times
    for a, b in zip(got, got[1:]):
        if b[0] < a[0]:
            viol.add('C07-5', 'nrt-score-unsorted',
                     f'score entry at {b[0]} follows entry at {a[0]}')
            break
    # raw form: concatenation of int32(len) + encoding, same order
    raw = bytes.fromhex(res['raw'])
    pos = 0
    dec = []
    while pos < len(raw):
        if pos + 4 > len(raw):
            viol.add('C07-5', 'nrt-raw-truncated', 'raw score truncated')
            break
        n = struct.unpack_from('>i', raw, pos)[0]
        pos += 4
        if n <= 0 or pos + n > len(raw):
            viol.add('C07-5', 'nrt-raw-length', f'bad length prefix {n}')
            break
        dec.append(raw[pos:pos + n])
        pos += n
    if len(dec) != len(got):
        viol.add('C07-5', 'nrt-raw-count',
                 f'raw score has {len(dec)} packets, list has {len(got)}')
    else:
        for d, b in zip(dec, got):
            if d != encode_nrt(b):
                pkt, err = osc.try_decode(d)
                viol.add('C07-5', 'nrt-raw-content',
                         f'raw packet for list entry {b} decodes to {pkt!r} '
                         f'{err or ""}')
                break
        stats['raw-packets-checked'] = stats.get(
            'raw-packets-checked', 0) + len(dec)


def first_diff(a, b):
    for i, (x, y) in enumerate(zip(a, b)):
        if x != y:
            return f'index {i}: got {x}, expected {y}'
    return f'lengths {len(a)} vs {len(b)}'


def run_case(case, tape, ctx):
    viol = C.Violations()
    stats = {}
    rt = S.subrun(tape, lambda st, emit: run_rt(case, st, emit))
    nrt = S.subrun(tape, lambda st, emit: run_nrt(case, st, emit))
    agg = W.combine([rt])
    if rt['outcome'] != 'ok':
        return W.result(viol, agg, outcome=rt['outcome'])
    if W.process_raised(viol, 'C07-5', nrt):
        return W.result(viol, agg)
    check_rt(case, rt, viol, stats)
    check_nrt(case, nrt, viol, stats, False)
    nb = sum(1 for r in case['prog']['routines'] for st in r['body']
             if st[0] == 'bundle' and len(st) > 3)
    if nb:
        stats['bind-block-bundles'] = nb
        nz = sum(1 for r in case['prog']['routines'] for st in r['body']
                 if st[0] == 'bundle' and len(st) > 3 and st[1] == 0)
        if nz:
            stats['bind-block-latency-zero'] = nz
    # the logical time a routine sends at is the one the program implies
    # (independent model), in both worlds
    model = rprog.Model(case['prog']).run()
    want = {}
    for ev in model.events:
        if ev[0] == 'send':
            want.setdefault(ev[1], []).append(ev[2])
    for name, res in (('rt', rt), ('nrt', nrt)):
        got = {}
        for e in res['trace']:
            if e['ev'] == 'send' and e['r'] != 'main':
                got.setdefault(e['r'], []).append(e['secs'])
        for rid, ws in want.items():
            gs = got.get(rid, [])
            if model.ambiguous or model.cross_tie:
                break
            for i, (a, b) in enumerate(zip(gs, ws)):
                stats['send-times-vs-model'] = stats.get(
                    'send-times-vs-model', 0) + 1
                if abs(a - b) > 1e-9 * max(1.0, abs(b)):
                    viol.add('C07-1', f'{name}-send-logical-time',
                             f'{name}: routine {rid} sends its bundle {i} at '
                             f'logical time {a}, the program implies {b}')
                    break
    sample = {'driver': case['driver'][:4], 'loopback': case['loopback'],
              'sends': [e for e in rt['trace'] if e['ev'] == 'send'][:2]}
    for s in sample['sends']:
        s.pop('dgrams', None)
    nsend = sum(1 for e in rt['trace'] if e['ev'] == 'send')
    return W.result(viol, agg, nontrivial=nsend > 0 and agg['contended'] > 0,
                    sample=sample, extra_probes=stats)
