"""C10 - real-time and non-real-time modes run the same program identically.
One case = one program over routines, clocks, tempo changes, pause/resume,
conditions, flow variables, seeded random draws and bundle sends, executed by
real sc3 (a) in the RT world under bounded jitter (latency <= 2 ms, cost
<= 5 us: below the program's logical margin), (b) in the NRT world, (c) in
the NRT world again in a fresh process, (d) in the NRT world with the draws of
unrelated generators perturbed.  RT and NRT traces are compared only for
programs that are logically well-synchronised (decided from the NRT timeline:
no two events on different clocks that touch the same state lie within the
margin); for the others real time has no single answer."""

import os

from sim import subrun as S
from sim import osc
from . import common as C
from . import rprog
from . import rworlds as W

ID = 'C10'
QUICK_RUNS = 1200
THOROUGH_SECONDS = 480
MARGIN = 1.0 / 128
TICK = 2.0 ** -32

COMPONENTS = {
    'real': 'sc3 RtMain and NrtMain, all clocks, ClockScheduler/ClockTask, '
            'Routine/Condition/FlowVar, builtins random functions, OSC '
            'interfaces and score',
    'stub': 'threading primitives, time, socket (RT side only)'}

TEMPOS = [0.5, 1, 1, 2, 2, 4]


def scenario_move(tp):
    """Directed template: a routine waiting in one clock is paused and
    resumed onto another clock before its pending wake-up (it then sits in
    both queues), at instants kept apart from every beat."""
    tempo1 = tp.choice([1, 2, 4])
    tempo2 = tp.choice([1, 2])
    # the routine lives on a TempoClock (wake-ups on the beat grid) and is
    # moved onto SystemClock at an instant off that grid, so that the wake-ups
    # it now gets from two clocks never coincide
    c1 = tp.choice(['t0', 't1'])
    c2 = 'sys'
    names = ['sys']
    n = 3 + tp.draw(4)
    body = [['rec']]
    for i in range(n):
        body += [['wait', tp.choice([0.5, 1, 1, 2])], ['rec']]
        if tp.draw(3) == 0:
            body.append(['msg', 100 + i])
    off = tp.choice([1 / 16, 3 / 16, 5 / 16, 3 / 32]) + tp.draw(3) * 0.5
    ctl = [['spawnd' if c1 == 'sys' else 'spawn', 1] +
           ([0] if c1 == 'sys' else []),
           ['wait', off], ['pause', 1], ['resume', 1, c2]]
    if tp.draw(2):
        ctl += [['wait', 1 / 16 + tp.draw(3) * 0.25], ['pause', 1],
                ['wait', 1 / 32], ['resume', 1, tp.choice(names)]]
    return {'t0': rprog.T0, 'clocks': [{'tempo': tempo1, 'beats': 0},
                                       {'tempo': tempo2, 'beats': 0}],
            'routines': [
                {'clock': 'sys', 'quant': None, 'seed': tp.draw(1000),
                 'body': ctl},
                {'clock': c1, 'quant': 0, 'seed': None, 'body': body}]}


def scenario_past(tp):
    """Directed template: a routine schedules another one at a time point
    that has already elapsed (sched_abs in the past).  The late task runs at
    once but with the logical time it was scheduled for, in both modes; it is
    the only other routine, so nothing races with it."""
    cname = tp.choice(['sys', 't0'])
    back = tp.choice([0.25, 0.5, 0.75, 1.5])
    body = [['rec']]
    for i in range(2 + tp.draw(4)):
        body += [['wait', tp.choice([0.25, 0.5, 0.125])], ['rec']]
        if tp.draw(2):
            body.append(['msg', 200 + i])
    root = [['rec'], ['wait', 1.0 + tp.draw(3) * 0.5], ['rec'],
            ['spawna', 1, -back], ['wait', 8.0], ['rec']]
    return {'t0': rprog.T0,
            'clocks': [{'tempo': tp.choice([1, 2]), 'beats': 0}],
            'routines': [
                {'clock': 'sys', 'quant': None, 'seed': tp.draw(1000),
                 'body': root},
                {'clock': cname, 'quant': 0, 'seed': None, 'body': body}]}


def scenario_retie(tp):
    """Directed template: several routines wait for the same beat of one
    TempoClock; one of the earlier ones is scheduled again for that very
    beat (it moves behind the others), then the tempo changes while all are
    pending.  They share a random generator, so the order in which they wake
    up shows in the values they draw - and it must be the same in both
    modes.  Everything that races is on one clock: race-free."""
    n = 3 + tp.draw(2)
    wait = tp.choice([2, 3])
    kids = []
    for i in range(n):
        kids.append({'clock': 't0', 'quant': 0, 'seed': None,
                     'body': [['wait', wait], ['draw', 'rand_i'], ['rec'],
                              ['draw', 'rand_f'], ['msg', 300 + i]]})
    moved = 1 + tp.draw(n - 1)
    root = [['spawn', 1 + i] for i in range(n)]
    root += [['wait', 0.5], ['resched', moved, wait - 0.5],
             ['wait', 0.25], ['tempo', 0, tp.choice([2, 0.5, 4])],
             ['wait', 8.0], ['rec']]
    return {'t0': rprog.T0, 'clocks': [{'tempo': 1, 'beats': 0}],
            'routines': [{'clock': 'sys', 'quant': None,
                          'seed': tp.draw(1000), 'body': root}] + kids}


def scenario_periodic(tp):
    """Directed template: two periodic routines on one TempoClock of a tempo
    that is not a power of two, one stepping twice as fast as the other.
    Every second step they are due at the same beat: the one queued first
    for that beat wakes first.  They share a random generator, so the order
    shows in what they draw.  One clock: race-free."""
    n = 6 + tp.draw(5)
    a = [x for _ in range(n) for x in
         (['draw', 'rand_i'], ['msg', 400], ['wait', 1])]
    b = [x for _ in range(2 * n) for x in
         (['draw', 'rand_i'], ['msg', 500], ['wait', 0.5])]
    root = [['spawn', 1], ['spawn', 2], ['wait', n + 1.0], ['rec']]
    return {'t0': rprog.T0,
            'clocks': [{'tempo': tp.choice([12, 3, 7, 1.5, 6, 24]),
                        'beats': 0}],
            'routines': [{'clock': 'sys', 'quant': None,
                          'seed': tp.draw(1000), 'body': root},
                         {'clock': 't0', 'quant': 0, 'seed': None, 'body': a},
                         {'clock': 't0', 'quant': 0, 'seed': None,
                          'body': b}]}


def scenario_jump(tp):
    """Directed template: a routine is pending on a TempoClock for a beat
    ahead (played with a quant); another routine of that clock moves the
    clock's beats forward past that beat.  The pending routine is overdue
    then and runs at once, with the beat it was waiting for - in both modes.
    One clock: race-free."""
    q = tp.choice([4, 3, 2])
    w = tp.choice([1, 1.5])
    # (just past the pending beat: the overdue routine's logical time, the
    # second of the beat it waited for, stays after the start of the program;
    # the driver does nothing after the jump - it goes on from its old beat,
    # as documented, i.e. in the past)
    jump = q - w + 0.5
    follower = [['rec'], ['draw', 'rand_i'], ['msg', 600], ['wait', 1],
                ['rec'], ['msg', 601]]
    driver = [['wait', w], ['beats', 0, jump], ['rec'], ['draw', 'rand_i']]
    # (the follower is played a little after beat 0, which is on every
    # grid: its grid point is beat q)
    root = [['spawn', 1], ['wait', 1 / 64], ['spawn', 2], ['wait', 12.0],
            ['rec']]
    return {'t0': rprog.T0,
            'clocks': [{'tempo': tp.choice([1, 2]), 'beats': 0}],
            'routines': [{'clock': 'sys', 'quant': None,
                          'seed': tp.draw(1000), 'body': root},
                         {'clock': 't0', 'quant': 0, 'seed': None,
                          'body': driver},
                         {'clock': 't0', 'quant': [q, 0], 'seed': None,
                          'body': follower}]}


def gen_appsys(tp, tier):
    """NRT only: a program over AppClock as well.  In non-real-time mode
    AppClock keeps logical time like SystemClock (no drift), so the program
    must behave exactly as its copy with SystemClock in AppClock's place."""
    feat = {'tempo_clocks': True, 'app': True, 'sends': True, 'bind': True,
            'sync': tp.draw(2) == 0, 'control': True,
            'draws': tp.draw(2) == 0, 'seeds': True, 'inf_wait': True}
    prog = rprog.gen(tp, feat, tier)
    for _ in range(6):
        if any(r['clock'] == 'app' for r in prog['routines'][1:]):
            break
        prog = rprog.gen(tp, feat, tier)
    prog['routines'][0]['seed'] = tp.draw(1000)
    # (a routine resumed onto another clock sits in two queues; with
    # SystemClock standing in for AppClock the two would be one: only
    # resumptions on the routine's own clock here)
    for r in prog['routines']:
        for st in r['body']:
            if st[0] == 'resume' and len(st) > 2:
                del st[2:]
    return {'prog': prog, 'kind': 'appsys', 'knobs': {}, 'perturb': 1,
            'family': 0}


def run_appsys(case, tape):
    import copy
    import hashlib
    prog = case['prog']
    viol = C.Violations()
    stats = {'nrt-app-vs-sys': 1}
    twin = copy.deepcopy(prog)
    for r in twin['routines']:
        if r['clock'] == 'app':
            r['clock'] = 'sys'
    for r in twin['routines']:
        for st in r['body']:
            if st[0] == 'resume' and len(st) > 2 and st[2] == 'app':
                st[2] = 'sys'
    a = S.subrun(tape, lambda st, emit: W.run_nrt(prog, st, emit))
    b = S.subrun(tape, lambda st, emit: W.run_nrt(twin, st, emit))
    napp = sum(1 for r in prog['routines'] if r['clock'] == 'app')
    if not W.process_raised(viol, 'C10-1', a, b) and napp:
        compare_traces('nrt (AppClock)', a['trace'], 'nrt (SystemClock)',
                       b['trace'], viol, 'C10-1', 'nrt-app-vs-sys', stats)
        if a['raw'] != b['raw']:
            viol.add('C10-1', 'nrt-app-vs-sys-score',
                     'the score of the program differs from the score of '
                     'its copy with SystemClock in place of AppClock: '
                     f'{first_diff(a["score"], b["score"])}')
        for name, res in (('app', a), ('sys', b)):
            if res['errors']:
                viol.add('C10-1', f'nrt-{name}-error-logged',
                         str(res['errors'][0]))
    h = hashlib.sha1(repr(a.get('raw', '')).encode()).hexdigest()
    return {'violations': viol.items, 'probes': stats, 'faults': {},
            'outcome': 'ok', 'steps': 0, 'vtime': 0.0, 'sig': h[:16],
            'digest': h, 'nontrivial': napp > 0,
            'sample': {'kind': 'appsys', 'routines': [
                {'clock': r['clock'], 'body': r['body'][:8]}
                for r in prog['routines'][:3]]},
            'features': ['nrt-app-vs-sys']}


def gen_case(tp, tier):
    if tp.draw(10) == 0:
        return gen_appsys(tp, tier)
    if tp.draw(16) == 0:
        kn = {'policy': tp.choice(C.POLICIES), 'lat': tp.choice([0, 4, 4]),
              'cost': tp.choice([0.0, 5e-6]), 'stall_pm': 0,
              'epoch': tp.choice(['exact', 'real']),
              'time_yield': bool(tp.draw(2)), 'max_steps': 30000}
        if tp.draw(3) == 0:
            return {'prog': scenario_periodic(tp), 'knobs': kn, 'perturb': 1,
                    'family': 0, 'scenario': 'periodic'}
        if tp.draw(3) == 0:
            return {'prog': scenario_jump(tp), 'knobs': kn, 'perturb': 1,
                    'family': 0, 'scenario': 'jump'}
        if tp.draw(2):
            return {'prog': scenario_retie(tp), 'knobs': kn, 'perturb': 1,
                    'family': 0, 'scenario': 'retie'}
        return {'prog': scenario_past(tp), 'knobs': kn, 'perturb': 1,
                'family': 0, 'scenario': 'past'}
    if tp.draw(8) == 0:
        kn = {'policy': tp.choice(C.POLICIES), 'lat': tp.choice([0, 4, 4]),
              'cost': tp.choice([0.0, 5e-6]), 'stall_pm': 0,
              'epoch': tp.choice(['exact', 'real']),
              'time_yield': bool(tp.draw(2)), 'max_steps': 30000}
        return {'prog': scenario_move(tp), 'knobs': kn, 'perturb': 1,
                'family': 0, 'scenario': 'move'}
    feat = {'tempo_clocks': True, 'sends': tp.draw(2) == 0, 'bind': True,
            'inf_wait': True, 'premake': True,
            'tempo_change': tp.draw(3) == 0,
            'sync': tp.draw(2) == 0, 'control': tp.draw(3) == 0,
            'draws': tp.draw(2) == 0, 'seeds': True}
    prog = rprog.gen(tp, feat, tier)
    for c in prog['clocks']:
        c['tempo'] = tp.choice(TEMPOS)
    for r in prog['routines']:
        for st in r['body']:
            if st[0] == 'tempo':
                st[2] = tp.choice(TEMPOS)
    prog['routines'][0]['seed'] = tp.choice([0, tp.draw(1000),
                                             tp.draw(1000)])
    ctr = [0]

    def renum(els):
        for e in els:
            if e[0] == 'M':
                ctr[0] += 1
                e[1] = ctr[0]
            else:
                renum(e[2])
    for r in prog['routines']:
        for st in r['body']:
            if st[0] == 'msg':
                ctr[0] += 1
                st[1] = ctr[0]
            elif st[0] == 'bundle':
                renum(st[2])
    kn = {'policy': tp.choice(C.POLICIES), 'lat': tp.choice([0, 4, 4]),
          'cost': tp.choice([0.0, 5e-6]), 'stall_pm': 0,
          'epoch': tp.choice(['exact', 'real']),
          'time_yield': bool(tp.draw(2)), 'max_steps': 30000}
    return {'prog': prog, 'knobs': kn, 'perturb': 1 + tp.draw(5),
            'family': tp.draw(8)}


def shrink_candidates(case):
    import copy
    for p in rprog.shrink_candidates(case['prog']):
        c = copy.deepcopy(case)
        c['prog'] = p
        yield c


# ---- analysis: is the program logically well-synchronised? ---------------

def footprint(e, prog, fam):
    ev = e['ev']
    rid = e['r']
    cname = prog['routines'][rid]['clock']
    fp = [('routine', rid, 'R')]
    if cname.startswith('t'):
        fp.append(('map', cname, 'R'))
    if ev in ('spawn', 'spawnd'):
        cc = prog['routines'][e['child']]['clock']
        fp += [('map', cc, 'R'), ('queue', cc, 'W'),
               ('routine', e['child'], 'W')]
    elif ev in ('tempo', 'beats'):
        fp.append(('map', f't{e["vals"][0]}', 'W'))
    elif ev == 'draw':
        fp.append(('rgen', fam.get(rid), 'W'))
    elif ev in ('pause', 'stop'):
        fp.append(('routine', e['vals'][0], 'W'))
    elif ev == 'resume':
        t = e['vals'][0]
        fp += [('routine', t, 'W'), ('queue', '*', 'W')]
    elif ev in ('cwait', 'cwoke', 'cset'):
        fp.append(('cond', e['vals'][0], 'W'))
    elif ev in ('csignal', 'cunhang'):
        fp += [('cond', e['vals'][0], 'W'), ('queue', '*', 'W')]
    elif ev in ('fget', 'fgot'):
        fp.append(('flow', e['vals'][0], 'W'))
    elif ev in ('fset', 'fset-refused'):
        fp += [('flow', e['vals'][0], 'W'), ('queue', '*', 'W')]
    elif ev == 'rec' or ev == 'end' or ev == 'send':
        fp.append(('queue', cname, 'W'))     # the reschedule that follows
    return fp


def conflicts(fa, fb):
    for ka, na, ma in fa:
        for kb, nb, mb in fb:
            if ka != kb:
                continue
            if na == nb or (ka == 'queue' and '*' in (na, nb)):
                if ma == 'W' or mb == 'W':
                    return (ka, na)
    return None


def families(prog):
    """routine -> id of the seeded ancestor whose generator it uses."""
    parent = {}
    for i, r in enumerate(prog['routines']):
        for st in r['body']:
            if st[0] in ('spawn', 'spawnd', 'embed', 'spawna'):
                parent.setdefault(st[1], i)
    for i, r in enumerate(prog['routines']):
        for st in r['body']:
            if st[0] == 'make':
                parent[st[1]] = i      # the generator comes from the maker
    fam = {}
    for i, r in enumerate(prog['routines']):
        j = i
        seen = set()
        while prog['routines'][j].get('seed') is None and j in parent \
                and j not in seen:
            seen.add(j)
            j = parent[j]
        fam[i] = j if prog['routines'][j].get('seed') is not None else None
    return fam


def well_synchronised(prog, trace, slack=1e-9, second_at=None):
    """`second_at`: index at which the second world's trace starts when
    `trace` is the concatenation of two worlds' traces."""
    fam = families(prog)
    # a task made overdue by a map change (its logical time lies before the
    # instant of the change) runs 'immediately': in real time it races with
    # whatever else is due at that physical instant
    hi = None
    for e in trace:
        if 'secs' not in e or e['r'] == 'main':
            continue
        if hi is not None and e['secs'] < hi - slack:
            return False, ('overdue-task', e['r'])
        hi = e['secs'] if hi is None else max(hi, e['secs'])
    # a routine resumed onto an explicitly given clock may sit in two clocks'
    # queues at once: its wake-ups can come from either thread
    moved = {st[1] for r in prog['routines'] for st in r['body']
             if st[0] == 'resume' and len(st) > 2}
    evs = []
    res_idx = {}
    for n, e in enumerate(trace):
        if n == second_at:
            # the same resumption gets the same name in both worlds
            res_idx = {}
        if 'secs' not in e or e['r'] == 'main':
            continue
        cname = prog['routines'][e['r']]['clock']
        fp = footprint(e, prog, fam)
        if e['r'] in moved:
            # events of one resumption share a name; two resumptions of the
            # routine inside one margin window (woken by two clocks) conflict
            k = res_idx.get(e['r'], 0)
            cname = f'moved-{e["r"]}-{k}'
            fp = fp + [('routine', e['r'], 'W')]
            if e['ev'] in ('wait', 'cwait', 'fget'):
                res_idx[e['r']] = k + 1
        evs.append((e['secs'], cname, fp, e, n))
    # operations that schedule a routine: (trace index, actor, target, secs)
    causes = []
    for n, e in enumerate(trace):
        if e['ev'] in ('spawn', 'spawnd'):
            causes.append((n, e['r'], e['child'], e.get('secs')))
        elif e['ev'] == 'resume':
            causes.append((n, e['r'], e['vals'][0], e.get('secs')))

    def world_of(n):
        return 0 if second_at is None or n < second_at else 1

    def caused(ea, na, eb, nb):
        """Is eb (routine q) an effect of something routine p did at or after
        its event ea?  Across two worlds the scheduling operation must have
        happened in both: after ea in ea's world, before eb in eb's."""
        if world_of(na) == world_of(nb):
            return na < nb and any(
                na <= k < nb and actor == ea['r'] and tgt == eb['r']
                for k, actor, tgt, _ in causes)
        for ka, actor, tgt, sa in causes:
            if actor != ea['r'] or tgt != eb['r'] or ka < na \
                    or world_of(ka) != world_of(na) or sa is None:
                continue
            for kb, actor2, tgt2, sb in causes:
                if actor2 == actor and tgt2 == tgt and kb < nb \
                        and world_of(kb) == world_of(nb) \
                        and sb is not None and abs(sa - sb) < 1e-9:
                    return True
        return False

    evs.sort(key=lambda x: x[0])
    for i, (s1, c1, f1, e1, n1) in enumerate(evs):
        for s2, c2, f2, e2, n2 in evs[i + 1:]:
            if s2 - s1 >= MARGIN:
                break
            if c1 == c2:
                continue
            # what an actor does before it schedules a routine happens before
            # that routine's wake-up: cause and effect do not race
            if caused(e1, n1, e2, n2) or caused(e2, n2, e1, n1):
                continue
            hit = conflicts(f1, f2)
            if hit:
                return False, (hit, e1['ev'], e1['r'], e2['ev'], e2['r'], s1,
                               s2)
    # unseeded generator use has no single answer across threads
    for e in trace:
        if e['ev'] == 'draw' and fam.get(e['r']) is None:
            return False, ('unseeded-draw', e['r'])
    return True, None


# ---- trace comparison -----------------------------------------------------

def per_routine(trace, with_values=True):
    out = {}
    for e in trace:
        ev = e['ev']
        if ev == 'send':
            item = ('send', e['secs'], e['kind'], e['lat'], repr(e['els']),
                    e['raised'])
        elif ev == 'rec':
            item = ('rec', e['secs'], e['beats'])
        elif ev in ('tempo', 'beats', 'bpb', 'grid'):
            item = (ev, e['secs'], e['vals'][0], e['vals'][1])
        elif ev == 'spawn' or ev == 'spawnd':
            item = (ev, e['secs'], e['child'])
        elif ev in ('pause', 'resume', 'stop'):
            info = e['vals'][1]
            item = (ev, e['secs'], e['vals'][0],
                    None if info is None else (info['pre'], info['post'],
                                               info['exc']))
        else:
            item = (ev, e['secs'], tuple(e['vals']))
        out.setdefault(e['r'], []).append(item)
    return out


def items_equal(a, b):
    if len(a) != len(b) or a[0] != b[0]:
        return False
    for x, y in zip(a[1:], b[1:]):
        if isinstance(x, float) or isinstance(y, float):
            if x is None or y is None:
                return False
            if abs(x - y) > 1e-9 * max(1.0, abs(x)):
                return False
        elif isinstance(x, tuple) and isinstance(y, tuple):
            if not items_equal(('t',) + x, ('t',) + y):
                return False
        elif x != y:
            return False
    return True


def compare_traces(na, ta, nb, tb, viol, oracle, keyprefix, stats):
    a = per_routine(ta)
    b = per_routine(tb)
    for rid in sorted(set(a) | set(b), key=str):
        la, lb = a.get(rid, []), b.get(rid, [])
        n = min(len(la), len(lb))
        for i in range(n):
            stats['events-compared'] = stats.get('events-compared', 0) + 1
            if not items_equal(la[i], lb[i]):
                viol.add(oracle, f'{keyprefix}-{la[i][0]}',
                         f'routine {rid}, event {i}: {na} {la[i]} vs {nb} '
                         f'{lb[i]}')
                return
        if len(la) != len(lb):
            extra = (la if len(la) > len(lb) else lb)[n]
            viol.add(oracle, f'{keyprefix}-length-{extra[0]}',
                     f'routine {rid}: {na} has {len(la)} events, {nb} '
                     f'{len(lb)}; first extra {extra}')
            return


def bundles_rt(res):
    """(time - 0, content) multiset of what reached the wire in RT."""
    out = []
    offset = res['osc_offset']
    for e in res['trace']:
        if e['ev'] != 'send':
            continue
        for hx in e.get('dgrams', []):
            pkt, err = osc.try_decode(bytes.fromhex(hx))
            if err:
                out.append((None, 'undecodable'))
            elif isinstance(pkt, osc.Msg):
                out.append((round(e['secs'], 9), ('m', repr(pkt.aslist()))))
            else:
                t = e['secs'] if pkt.timetag == 1 else \
                    (pkt.timetag - offset) * TICK
                out.append((round(t, 8), ('b', content(pkt))))
    return sorted(out, key=repr)


def content(pkt):
    if isinstance(pkt, osc.Msg):
        return repr(pkt.aslist())
    return '[' + ','.join(content(p) for p in pkt.elements) + ']'


def bundles_nrt(res):
    out = []
    for b in res['score'][1:-1]:
        els = b[1:]
        if len(els) == 1 and els[0][0] == '/m':
            out.append((round(b[0], 9), ('m', repr(els[0]))))
        else:
            out.append((round(b[0], 8), ('b', content_list(b))))
    return sorted(out, key=repr)


def content_list(b):
    return '[' + ','.join(
        repr(e) if isinstance(e[0], str) else content_list(e)
        for e in b[1:]) + ']'


def first_diff(a, b):
    for i, (x, y) in enumerate(zip(a, b)):
        if x != y:
            return f'entry {i}: {x!r} vs {y!r}'
    return f'lengths {len(a)} vs {len(b)}'


def draws_of(trace):
    out = {}
    for e in trace:
        if e['ev'] == 'draw':
            out.setdefault(e['r'], []).append(tuple(e['vals']))
    return out


def run_case(case, tape, ctx):
    if case.get('kind') == 'appsys':
        return run_appsys(case, tape)
    prog = case['prog']
    viol = C.Violations()
    stats = {}
    kn = dict(case['knobs'])
    rt = S.subrun(tape, lambda st, emit: W.run_rt(prog, kn, st, emit))
    nrt = S.subrun(tape, lambda st, emit: W.run_nrt(prog, st, emit))
    nrt2 = S.subrun(tape, lambda st, emit: W.run_nrt(prog, st, emit))
    agg = W.combine([rt])
    if rt['outcome'] != 'ok':
        return W.result(viol, agg, outcome=rt['outcome'])
    if W.process_raised(viol, 'C10-1', nrt, nrt2):
        return W.result(viol, agg)
    # 2. determinism of NRT: two fresh runs, byte-identical scores
    if nrt['raw'] != nrt2['raw']:
        viol.add('C10-2', 'nrt-score-differs',
                 'two fresh NRT runs of the program produced different '
                 'binary scores')
    compare_traces('nrt', nrt['trace'], 'nrt-again', nrt2['trace'], viol,
                   'C10-2', 'nrt-trace-differs', stats)
    # ... and so does a run after main.reset() in a process that rendered
    # another (longer) program before
    import copy
    prior = copy.deepcopy(prog)
    prior['routines'][0]['body'] += [['wait', 7.5], ['rec'], ['msg', 99999]]
    nrt3 = S.subrun(tape, lambda st, emit: W.run_nrt(prog, st, emit,
                                                     prior=prior))
    if W.process_raised(viol, 'C10-2', nrt3):
        return W.result(viol, agg)
    if nrt3['raw'] != nrt['raw']:
        viol.add('C10-2', 'nrt-score-differs-after-reset',
                 'the score of the program rendered after main.reset() '
                 'differs from the score of a fresh process: '
                 f'{first_diff(nrt["score"], nrt3["score"])}')
    compare_traces('nrt', nrt['trace'], 'nrt-after-reset', nrt3['trace'],
                   viol, 'C10-2', 'nrt-trace-differs-after-reset', stats)
    stats['reset-runs'] = 1
    # 3. a routine's random stream depends only on its (inherited) seed
    fam = families(prog)
    # (a routine made by one routine and played by another takes its maker's
    # generator - if the maker really comes first: where the run played it
    # before it was made, whose generator it has is not what the static
    # reading above says - no verdict for it and for what it creates)
    seen_spawn, late_made = set(), set()
    for e in nrt['trace']:
        if e['ev'] in ('spawn', 'spawnd') and 'child' in e:
            seen_spawn.add(e['child'])
        elif e['ev'] == 'make' and e['vals'][0] in seen_spawn:
            late_made.add(e['vals'][0])
    if late_made:
        stats['made-after-played'] = 1
        kids = {}
        for i, r in enumerate(prog['routines']):
            for st in r['body']:
                if st[0] in ('spawn', 'spawnd', 'embed', 'spawna', 'make'):
                    kids.setdefault(i, set()).add(st[1])
        todo = list(late_made)
        while todo:
            c = todo.pop()
            if fam.get(c) is not None or c in late_made:
                fam[c] = None
            for k in kids.get(c, ()):
                if prog['routines'][k].get('seed') is None \
                        and fam.get(k) is not None:
                    fam[k] = None
                    todo.append(k)
    seeded = all(fam.get(e['r']) is not None for e in nrt['trace']
                 if e['ev'] == 'draw')
    if any(e['ev'] == 'draw' for e in nrt['trace']):
        pert = S.subrun(tape, lambda st, emit: W.run_nrt(
            prog, st, emit, seed=991, perturb=case['perturb']))
        d0, d1 = draws_of(nrt['trace']), draws_of(pert['trace'])
        for rid in d0:
            if fam.get(rid) is None:
                continue
            stats['seeded-draws-compared'] = stats.get(
                'seeded-draws-compared', 0) + len(d0[rid])
            if d0[rid] != d1.get(rid):
                viol.add('C10-3', 'seeded-draws-depend-on-main-generator',
                         f'routine {rid} (seed of routine {fam[rid]}) drew '
                         f'{d0[rid][:3]} and, after unrelated draws on the '
                         f'main generator, {(d1.get(rid) or [])[:3]}')
        # other family perturbed: extra draws in one seeded family
        fams = sorted({f for f in fam.values() if f is not None})
        if len(fams) > 1:
            import copy
            victim = fams[case['family'] % len(fams)]
            p2 = copy.deepcopy(prog)
            for i, r in enumerate(p2['routines']):
                if fam[i] == victim:
                    r['body'] = [['draw', 'rand_f']] + r['body']
            other = S.subrun(tape, lambda st, emit: W.run_nrt(p2, st, emit))
            d2 = draws_of(other['trace'])
            for rid in d0:
                if fam.get(rid) is None or fam[rid] == victim:
                    continue
                stats['cross-family-compared'] = stats.get(
                    'cross-family-compared', 0) + 1
                if d0[rid] != d2.get(rid):
                    viol.add('C10-3', 'draws-depend-on-other-routines',
                             f'routine {rid} (seed of routine {fam[rid]}) '
                             f'drew differently after routines seeded by '
                             f'routine {victim} drew more')
    # 1. RT vs NRT
    ok, why = well_synchronised(prog, nrt['trace'])
    if case.get('scenario') in ('past', 'retie', 'periodic', 'jump'):
        ok, why = True, None       # race-free by construction
    if ok and not case.get('scenario') and any(
            st[0] == 'resume' and len(st) > 2
            for r in prog['routines'] for st in r['body']):
        # a routine sitting in two clocks' queues may be woken by both at
        # the same instant without leaving a trace of the second wake-up:
        # judged only in the directed scenario, which keeps them apart
        ok, why = False, ('moved-routine',)
    if ok and case.get('scenario') not in ('past', 'retie', 'periodic', 'jump'):
        # a routine that one world never got to run leaves no event there:
        # the real-time timeline must be free of conflicts as well
        # (physical order: unrelated events of different clocks inside one
        # margin window may appear in either order)
        ok, why = well_synchronised(prog, rt['trace'], slack=MARGIN)
    if ok and case.get('scenario') not in ('past', 'retie', 'periodic', 'jump'):
        # ... and so must the union of both (each world may have silenced a
        # different one of two routines that race, e.g. each pausing the
        # other at the same instant)
        ok, why = well_synchronised(prog, nrt['trace'] + rt['trace'],
                                    slack=float('inf'),
                                    second_at=len(nrt['trace']))
    if ok:
        stats['well-synchronised'] = 1
        if case.get('scenario'):
            stats['scenario-' + case['scenario'] + '-judged'] = 1
        if rt['errors'] or nrt['errors']:
            viol.add('C10-1', 'error-logged',
                     f'rt: {rt["errors"][:1]} nrt: {nrt["errors"][:1]}')
        compare_traces('rt', rt['trace'], 'nrt', nrt['trace'], viol, 'C10-1',
                       'rt-nrt', stats)
        br, bn = bundles_rt(rt), bundles_nrt(nrt)
        if br != bn:
            only_r = [x for x in br if x not in bn][:2]
            only_n = [x for x in bn if x not in br][:2]
            viol.add('C10-1', 'rt-nrt-bundles',
                     f'bundles differ: only RT {only_r}, only NRT {only_n}')
        stats['bundles-compared'] = stats.get('bundles-compared', 0) + len(bn)
    else:
        stats['racy-program-skipped'] = 1
        if os.environ.get('VERIF_DBG'):
            stats['why ' + repr(why)] = 1
        stats[f'racy-{why[0][0] if isinstance(why[0], tuple) else why[0]}'] = 1
    feats = []
    kinds = {e['ev'] for e in nrt['trace']}
    for kname in ('tempo', 'beats', 'pause', 'resume', 'stop', 'cwoke',
                  'fgot', 'draw', 'send'):
        if kname in kinds:
            feats.append(kname)
    sample = {'clocks': prog['clocks'], 'routines': [
        {'clock': r['clock'], 'quant': r['quant'], 'seed': r['seed'],
         'body': r['body'][:10]} for r in prog['routines'][:3]]}
    return W.result(viol, agg, nontrivial=ok and agg['contended'] > 0,
                    sample=sample, extra_probes=stats, features=feats)
